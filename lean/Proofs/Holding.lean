import Proofs.Relations
/-
  C06 / C07 / C17, the "at least once" half: every batch in the holding window of a rated block
  is CONSIDERED while that block is applied — a status is written for it, or it is skipped as
  already executed (replay mark), or its conversion cannot be computed and it is dropped.

  The proof uses the history variable `DB.statusLog` (every `SetTransactionHistoryExecuted`
  call, in order). `logGrows` (the log is only ever extended) holds for every primitive, hence
  (by `blockTx_step`) for every piece of the block transaction; a status written at some point
  of the block is therefore still in the log when the block ends.
-/
namespace Pegnet

/-! ### two relations at once -/

def Rel.and {σ} (R₁ R₂ : Rel σ) : Rel σ where
  r s s' := R₁.r s s' ∧ R₂.r s s'
  refl s := ⟨R₁.refl s, R₂.refl s⟩
  trans a b c h1 h2 := ⟨R₁.trans a b c h1.1 h2.1, R₂.trans a b c h1.2 h2.2⟩

theorem Step.and {σ α} {R₁ R₂ : Rel σ} {m : M σ α} (h1 : Step R₁ m) (h2 : Step R₂ m) : Step (R₁.and R₂) m :=
  ⟨fun s => ⟨h1.run s, h2.run s⟩⟩

theorem primsOK_and {P : Params} {h : Nat} {R₁ R₂ : Rel DB} (o1 : PrimsOK P h R₁) (o2 : PrimsOK P h R₂) :
    PrimsOK P h (R₁.and R₂) where
  addBal a t v := (o1.addBal a t v).and (o2.addBal a t v)
  subBal a t v ha := (o1.subBal a t v ha).and (o2.subBal a t v ha)
  insertRate a b := (o1.insertRate a b).and (o2.insertRate a b)
  insertHistBatch r := (o1.insertHistBatch r).and (o2.insertHistBatch r)
  insertHistTx r _ := (o1.insertHistTx r trivial).and (o2.insertHistTx r trivial)
  insertLookup r := (o1.insertLookup r).and (o2.insertLookup r)
  setExecuted a b := (o1.setExecuted a b).and (o2.setExecuted a b)
  setConvertedAmount a b c := (o1.setConvertedAmount a b c).and (o2.setConvertedAmount a b c)
  setPegConverted a b c d := (o1.setPegConverted a b c d).and (o2.setPegConverted a b c d)
  insertRelation a b c d e := (o1.insertRelation a b c d e).and (o2.insertRelation a b c d e)
  insertHolding a b _ := (o1.insertHolding a b trivial).and (o2.insertHolding a b trivial)
  insertBank a := (o1.insertBank a).and (o2.insertBank a)
  updateBank a b c := (o1.updateBank a b c).and (o2.updateBank a b c)
  insertGrade a b c d e := (o1.insertGrade a b c d e).and (o2.insertGrade a b c d e)
  insertWinner a b c d e := (o1.insertWinner a b c d e).and (o2.insertWinner a b c d e)
  markSynced v := (o1.markSynced v).and (o2.markSynced v)
  rotate := o1.rotate.and o2.rotate
  touch := o1.touch.and o2.touch

/-! ### the status log only grows -/

def logGrows : Rel DB where
  r s s' := s.statusLog <+: s'.statusLog
  refl _ := List.prefix_refl _
  trans _ _ _ h1 h2 := List.IsPrefix.trans h1 h2

theorem logKeep (s s' : DB) (e : s'.statusLog = s.statusLog) : logGrows.r s s' := by
  show _ <+: _; rw [e]; exact List.prefix_refl _

theorem primsOK_logGrows (P : Params) (h : Nat) : PrimsOK P h logGrows where
  addBal _ _ _ := guarded_keep (·.statusLog) logKeep (fun _ => rfl)
  subBal a t v _ := subBal_step_of P a t v
    (guarded_keep (·.statusLog) logKeep (fun _ => rfl))
    (guarded_keep (·.statusLog) logKeep (fun _ => rfl))
  insertRate _ _ := guarded_keep (·.statusLog) logKeep (fun _ => rfl)
  insertHistBatch _ := guarded_keep (·.statusLog) logKeep (fun _ => rfl)
  insertHistTx _ _ := guarded_keep (·.statusLog) logKeep (fun _ => rfl)
  insertLookup _ := guarded_keep (·.statusLog) logKeep (fun s => by split <;> rfl)
  setExecuted hash v := Step.guarded (fun s => by show _ <+: _; exact List.prefix_append _ _)
  setConvertedAmount _ _ _ := guarded_keep (·.statusLog) logKeep (fun _ => rfl)
  setPegConverted _ _ _ _ := guarded_keep (·.statusLog) logKeep (fun _ => rfl)
  insertRelation _ _ _ _ _ := guarded_keep (·.statusLog) logKeep (fun s => by split <;> rfl)
  insertHolding _ _ _ := guarded_keep (·.statusLog) logKeep (fun _ => rfl)
  insertBank _ := guarded_keep (·.statusLog) logKeep (fun _ => rfl)
  updateBank _ _ _ := guarded_keep (·.statusLog) logKeep (fun _ => rfl)
  insertGrade _ _ _ _ _ := guarded_keep (·.statusLog) logKeep (fun _ => rfl)
  insertWinner _ _ _ _ _ := guarded_keep (·.statusLog) logKeep (fun _ => rfl)
  markSynced _ := guarded_keep (·.statusLog) logKeep (fun _ => rfl)
  rotate := guarded_keep (·.statusLog) logKeep (fun _ => rfl)
  touch := guarded_keep (·.statusLog) logKeep (fun _ => rfl)

/-- log grows and replay marks stay -/
def ext : Rel DB := logGrows.and relsGrow

theorem hlog_ext : ∀ x, Step ext (logExec x) :=
  fun _ => Step.guarded (fun s => ⟨logKeep _ _ rfl, fun _ h => h⟩)

theorem primsOK_ext (P : Params) (h : Nat) : PrimsOK P h ext :=
  primsOK_and (primsOK_logGrows P h) (primsOK_relsGrow P h)

/-! ### "a status for `x` was written between `s` and `s'`" -/

def Wrote (s s' : DB) (x : Hash) : Prop :=
  ∃ pre post v, v ≠ 0 ∧ s'.statusLog = s.statusLog ++ pre ++ (x, v) :: post

theorem Wrote.mono_left {s0 s s' : DB} {x : Hash} (h0 : s0.statusLog <+: s.statusLog) (h : Wrote s s' x) :
    Wrote s0 s' x := by
  obtain ⟨t, ht⟩ := h0
  obtain ⟨pre, post, v, hnz, hv⟩ := h
  exact ⟨t ++ pre, post, v, hnz, by rw [hv, ← ht]; simp [List.append_assoc]⟩

theorem Wrote.mono_right {s s' s'' : DB} {x : Hash} (h : Wrote s s' x) (h2 : s'.statusLog <+: s''.statusLog) :
    Wrote s s'' x := by
  obtain ⟨t, ht⟩ := h2
  obtain ⟨pre, post, v, hnz, hv⟩ := h
  exact ⟨pre, post ++ t, v, hnz, by rw [← ht, hv]; simp [List.append_assoc]⟩

theorem setExecuted_ok {hash : Hash} {v : Int} {s s' : DB} (h : setExecuted hash v s = .ok () s') :
    s'.statusLog = s.statusLog ++ [(hash, v)] := by
  simp only [setExecuted, M.guarded] at h
  injection h with _ hs
  rw [← hs]

section
variable {P : Params} {h : Nat}

theorem logOf {α} {m : LM α} (hm : Step ext m) {s s' : DB} {a : α} (e : m s = .ok a s') :
    s.statusLog <+: s'.statusLog := (hm.ok e).1

theorem recordTx_wrote (hpos : 0 < h) {hash : Hash} {rates avgs : Option TMap} {idx : Nat} {t : Tx} {s s' : DB}
    (hr : recordTx P h hash rates avgs idx t s = .ok () s') : Wrote s s' hash := by
  have ok := primsOK_ext P h
  unfold recordTx at hr
  obtain ⟨b, s1, h1, h2⟩ := M.bind_ok hr
  have p1 := logOf (subBal_step ok t.inAddr t.inType t.inAmount) h1
  cases b with
  | false => simp at h2
  | true =>
    simp only [Bool.not_true, Bool.false_eq_true, ↓reduceIte] at h2
    obtain ⟨_, s2, h3, h4⟩ := M.bind_ok h2
    obtain ⟨_, s3, h5, h6⟩ := M.bind_ok h4
    have p2 := logOf (ok.insertRelation hash t.inAddr idx false (t.isConversion P)) h3
    have e3 := setExecuted_ok h5
    have p4 := logOf (recordOutputs_step ok hash rates avgs idx t) h6
    have w : Wrote s2 s3 hash := ⟨[], [], (h : Int), by omega, by rw [e3]; simp⟩
    exact ((w.mono_left p2).mono_left p1).mono_right p4

theorem forEach_cons_ok {α} {f : α → LM Unit} {x : α} {xs : List α} {s s' : DB}
    (hr : M.forEach (x :: xs) f s = .ok () s') : ∃ s1, f x s = .ok () s1 ∧ M.forEach xs f s1 = .ok () s' := by
  have : (f x >>= fun _ => M.forEach xs f) s = .ok () s' := hr
  obtain ⟨_, s1, h1, h2⟩ := M.bind_ok this
  exact ⟨s1, h1, h2⟩

theorem recordBatch_wrote (hpos : 0 < h) {hash : Hash} {rates avgs : Option TMap} {t : Tx} {rest : List Tx} {s s' : DB}
    (hr : recordBatch P h hash rates avgs (t :: rest) s = .ok () s') : Wrote s s' hash := by
  have ok := primsOK_ext P h
  unfold recordBatch M.forEachIdx at hr
  rw [List.zipIdx_cons] at hr
  obtain ⟨s1, h1, h2⟩ := forEach_cons_ok hr
  have w := recordTx_wrote hpos h1
  have c1 := recordTx_step ok hash rates avgs
  have p : Step ext (M.forEach (List.zipIdx rest (0 + 1)) fun p => recordTx P h hash rates avgs p.2 p.1) :=
    Step.forEach (fun a => c1 a.2 a.1)
  exact w.mono_right (logOf p h2)

/-- what `applyBatch` did, by the verdict it returns -/
theorem applyBatch_outcome (hpos : 0 < h) {e : TxEntry} {rates avgs : Option TMap} {s s' : DB} {v : Verdict}
    (hr : applyBatch P h e rates avgs s = .ok v s') :
    v = verdict P s h rates avgs e.txs ∧ (v = .apply → e.txs ≠ [] → Wrote s s' e.hash) ∧ (∀ f, v ≠ .failBlock f) := by
  unfold applyBatch at hr
  rw [M.bind_run] at hr
  simp only [M.get_run] at hr
  cases hver : verdict P s h rates avgs e.txs with
  | apply =>
    rw [hver] at hr
    simp only [M.bind_run, logExec, M.guarded] at hr
    cases hrec : recordBatch P h e.hash rates avgs e.txs { s with execLog := s.execLog ++ [e.hash] } with
    | ok u s2 =>
      rw [hrec] at hr; simp only [M.pure_run] at hr; injection hr with hv hs
      refine ⟨hv.symm, ⟨fun _ hne => ?_, fun f hf => (by rw [hf] at hv; cases hv)⟩⟩
      subst hs
      cases htx : e.txs with
      | nil => exact absurd htx hne
      | cons t rest =>
        rw [htx] at hrec
        have hw := recordBatch_wrote hpos hrec
        exact Wrote.mono_left (s0 := s) (List.prefix_refl _) hw
    | fail f s2 => rw [hrec] at hr; cases hr
  | reject c => rw [hver] at hr; simp only [M.pure_run] at hr; injection hr with hv _; exact ⟨hv.symm, ⟨fun h => (by rw [h] at hv; cases hv), fun f hf => (by rw [hf] at hv; cases hv)⟩⟩
  | dropped => rw [hver] at hr; simp only [M.pure_run] at hr; injection hr with hv _; exact ⟨hv.symm, ⟨fun h => (by rw [h] at hv; cases hv), fun f hf => (by rw [hf] at hv; cases hv)⟩⟩
  | failBlock f => rw [hver] at hr; simp only [M.throw_run] at hr; cases hr

theorem validAt_txs_ne_nil {e : TxEntry} {hh : Nat} (hv : e.validAt P hh = true) : e.txs ≠ [] := by
  unfold TxEntry.validAt at hv
  unfold TxEntry.txs
  cases hp : e.parsed with
  | none => rw [hp] at hv; cases hv
  | some p =>
    obtain ⟨v, txs⟩ := p
    rw [hp] at hv
    simp only [Bool.and_eq_true] at hv
    have h1 := hv.1.1
    unfold validData at h1
    simp only [Bool.and_eq_true] at h1
    intro hnil
    simp only at hnil
    rw [hnil] at h1
    simp at h1

/-! ### every reject code is negative, every execution status is the (positive) height -/

theorem pass1Tx_reject_neg {bal : Ticker → Int} {rates avgs : Option TMap} {t : Tx} {c : Int}
    (hv : pass1Tx P h bal rates avgs t = some (.reject c)) : c < 0 := by
  unfold pass1Tx at hv
  split at hv
  · injection hv with hv; injection hv with hv; omega
  · split at hv
    · split at hv
      · cases hv
      · split at hv
        · cases hv
        · split at hv
          · injection hv with hv; injection hv with hv; omega
          · split at hv
            · injection hv with hv; injection hv with hv; omega
            · split at hv
              · injection hv with hv; injection hv with hv; omega
              · simp only at hv
                split at hv <;> cases hv
    · cases hv

theorem pass1_reject_neg {bal : Ticker → Int} {rates avgs : Option TMap} {c : Int} :
    ∀ {l : List Tx}, pass1 P h bal rates avgs l = some (.reject c) → c < 0 := by
  intro l
  induction l with
  | nil => intro hv; cases hv
  | cons t rest ih =>
    intro hv
    unfold pass1 at hv
    cases h1 : pass1Tx P h bal rates avgs t with
    | some v => rw [h1] at hv; simp only at hv; injection hv with hv; subst hv; exact pass1Tx_reject_neg h1
    | none => rw [h1] at hv; exact ih hv

theorem pass2_reject_neg {rates avgs : Option TMap} {c : Int} :
    ∀ {l : List Tx} {bal : Ticker → Int}, pass2 P h rates avgs bal l = some (.reject c) → c < 0 := by
  intro l
  induction l with
  | nil => intro bal hv; cases hv
  | cons t rest ih =>
    intro bal hv
    unfold pass2 at hv
    split at hv
    · injection hv with hv; injection hv with hv; omega
    · split at hv
      · simp only at hv
        split at hv
        · cases hv
        · exact ih hv
      · exact ih hv

theorem verdict_reject_neg {db : DB} {rates avgs : Option TMap} {txs : List Tx} {c : Int}
    (hv : verdict P db h rates avgs txs = .reject c) : c < 0 := by
  unfold verdict at hv
  cases txs with
  | nil => cases hv
  | cons t0 rest =>
    simp only at hv
    cases h1 : pass1 P h (db.balances t0.inAddr) rates avgs (t0 :: rest) with
    | some v => rw [h1] at hv; simp only at hv; subst hv; exact pass1_reject_neg h1
    | none =>
      rw [h1] at hv
      simp only at hv
      cases h2 : pass2 P h rates avgs (db.balances t0.inAddr) (t0 :: rest) with
      | some v => rw [h2] at hv; simp only at hv; subst hv; exact pass2_reject_neg h2
      | none => rw [h2] at hv; cases hv

/-- how one held batch was dealt with between `s` and `s'`: a NON-ZERO status (the executing height or a
    negative reject code) was written for it, or it
    carries a replay mark (it was executed already), or its conversion could not be computed at
    some state `sm` (the batch is dropped, see C17's known finding) -/
def Considered (P : Params) (h : Nat) (rates avgs : TMap) (s s' : DB) (e : TxEntry) : Prop :=
  Wrote s s' e.hash ∨ s'.isReplay e.hash = true ∨ ∃ sm, verdict P sm h (some rates) (some avgs) e.txs = .dropped

theorem Considered.mono_left {rates avgs : TMap} {s0 s s' : DB} {e : TxEntry} (h0 : ext.r s0 s)
    (hc : Considered P h rates avgs s s' e) : Considered P h rates avgs s0 s' e := by
  rcases hc with w | r | d
  · exact Or.inl (w.mono_left h0.1)
  · exact Or.inr (Or.inl r)
  · exact Or.inr (Or.inr d)

theorem Considered.mono_right {rates avgs : TMap} {s s' s'' : DB} {e : TxEntry}
    (hc : Considered P h rates avgs s s' e) (h2 : ext.r s' s'') : Considered P h rates avgs s s'' e := by
  rcases hc with w | r | d
  · exact Or.inl (w.mono_right h2.1)
  · exact Or.inr (Or.inl (h2.2 _ r))
  · exact Or.inr (Or.inr d)

theorem applyHeld_considers (hpos : 0 < h) {rates avgs : TMap} {e : TxEntry} {s s' : DB} {b : Bool}
    (hr : applyHeld P h rates avgs e s = .ok b s') : Considered P h rates avgs s s' e := by
  have ok := primsOK_ext P h
  unfold applyHeld at hr
  rw [M.bind_run] at hr
  simp only [M.get_run] at hr
  split at hr
  · -- invalid now: status -2
    obtain ⟨_, s1, h1, h2⟩ := M.bind_ok hr
    simp only [M.pure_run] at h2
    injection h2 with _ hs
    subst hs
    exact Or.inl ⟨[], [], -2, by decide, by rw [setExecuted_ok h1]; simp⟩
  · rename_i hvalid
    split at hr
    · rename_i hrep
      simp only [M.pure_run] at hr
      injection hr with _ hs
      subst hs
      exact Or.inr (Or.inl hrep)
    · obtain ⟨v, s1, h1, h2⟩ := M.bind_ok hr
      obtain ⟨hv, happly, hnf⟩ := applyBatch_outcome hpos h1
      have p1 := logOf (applyBatch_step ok hlog_ext e (some rates) (some avgs)) h1
      cases v with
      | reject c =>
        obtain ⟨_, s2, h3, h4⟩ := M.bind_ok h2
        simp only [M.pure_run] at h4
        injection h4 with _ hs
        subst hs
        have hc : c < 0 := verdict_reject_neg hv.symm
        have w : Wrote s1 s2 e.hash := ⟨[], [], c, by omega, by rw [setExecuted_ok h3]; simp⟩
        exact Or.inl (w.mono_left p1)
      | apply =>
        simp only [M.pure_run] at h2
        injection h2 with _ hs
        subst hs
        have hne : e.txs ≠ [] := by
          apply validAt_txs_ne_nil (P := P) (hh := h)
          simp only [Bool.or_eq_true, Bool.and_eq_true, Bool.not_eq_true', not_or] at hvalid
          cases hva : e.validAt P h with
          | true => rfl
          | false => exact absurd hva hvalid.2
        exact Or.inl (happly rfl hne)
      | dropped => exact Or.inr (Or.inr ⟨s, hv.symm⟩)
      | failBlock f => exact absurd rfl (hnf f)

theorem foldM_cons_ok {α β} {f : β → α → LM β} {x : α} {xs : List α} {b b' : β} {s s' : DB}
    (hr : M.foldM f b (x :: xs) s = .ok b' s') : ∃ b1 s1, f b x s = .ok b1 s1 ∧ M.foldM f b1 xs s1 = .ok b' s' := by
  have : (f b x >>= fun b1 => M.foldM f b1 xs) s = .ok b' s' := hr
  exact M.bind_ok this

/-- a fold whose every step establishes `C` for its element, `C` being stable under extension
    on both sides, establishes `C` for every element over the whole fold -/
theorem foldM_all {α β} {f : β → α → LM β} {C : DB → DB → α → Prop}
    (hf : ∀ b a s b' s', f b a s = .ok b' s' → C s s' a)
    (hstep : ∀ b a, Step ext (f b a))
    (hL : ∀ s0 s s' a, ext.r s0 s → C s s' a → C s0 s' a)
    (hR : ∀ s s' s'' a, C s s' a → ext.r s' s'' → C s s'' a) :
    ∀ (l : List α) (b : β) (s : DB) (b' : β) (s' : DB), M.foldM f b l s = .ok b' s' → ∀ a ∈ l, C s s' a := by
  intro l
  induction l with
  | nil => intro _ _ _ _ _ a ha; cases ha
  | cons x xs ih =>
    intro b s b' s' hr a ha
    obtain ⟨b1, s1, h1, h2⟩ := foldM_cons_ok hr
    have e1 : ext.r s s1 := (hstep b x).ok h1
    have e2 : ext.r s1 s' := (Step.foldM (R := ext) (f := f) (l := xs) (b := b1) hstep).ok h2
    rcases List.mem_cons.mp ha with rfl | hin
    · exact hR _ _ _ _ (hf _ _ _ _ _ h1) e2
    · exact hL _ _ _ _ e1 (ih b1 s1 b' s' h2 a hin)

/-- **every batch in the holding window is considered** by `ApplyTransactionBatchesInHolding` -/
theorem applyHolding_considers (hpos : 0 < h) {c : DB} {rates avgs : TMap} {fromH : Nat} {s s' : DB}
    (hr : applyHolding P c h rates avgs fromH s = .ok () s') :
    ∀ row ∈ c.holding, fromH ≤ row.height → row.height < h → Considered P h rates avgs s s' row.entry := by
  have ok := primsOK_ext P h
  intro row hrow hlo hhi
  unfold applyHolding at hr
  obtain ⟨pegs, s1, h1, h2⟩ := M.bind_ok hr
  -- the tail of applyHolding only extends
  have e2 : ext.r s1 s' := by
    have st : Step ext (if h ≥ P.act.v4 ∧ h < P.act.v20 then (do
        let db ← M.get
        let bank := db.bankAmount h
        recordPegRequests P h rates avgs pegs bank.toNat h) else (pure () : LM Unit)) := by
      apply Step.ite
      · exact Step.bind Step.get (fun db => recordPegRequests_step ok rates avgs pegs _ _)
      · exact Step.pure _
    exact st.ok h2
  refine Considered.mono_right ?_ e2
  -- the outer fold over the heights of the window
  let inner : List TxEntry → TxEntry → LM (List TxEntry) := fun l e => do
    let join ← applyHeld P h rates avgs e
    pure (if join then l ++ [e] else l)
  have innerStep : ∀ l e, Step ext (inner l e) := fun l e =>
    Step.bind (applyHeld_step ok hlog_ext rates avgs e) (fun _ => Step.pure _)
  have innerOK : ∀ l e s l' s', inner l e s = .ok l' s' → Considered P h rates avgs s s' e := by
    intro l e s l' s' hi
    obtain ⟨j, sa, ha, hb⟩ := M.bind_ok hi
    simp only [M.pure_run] at hb
    injection hb with _ hs
    subst hs
    exact applyHeld_considers hpos ha
  let C : DB → DB → Nat → Prop := fun s s' i =>
    ∀ e ∈ (c.holding.filter (·.height == i)).map (·.entry), Considered P h rates avgs s s' e
  have key := foldM_all (C := C)
    (f := fun (pend : List TxEntry) i => do
      let held := (c.holding.filter (·.height == i)).map (·.entry)
      let pend ← M.foldM inner pend held
      if h ≥ P.act.convLimit ∧ h < P.act.v4 then do
        recordPegRequests P h rates avgs pend P.bankBase ((h : Int) - 1)
        pure []
      else pure pend)
    (by
      intro pend i s pend' s' hb e he
      obtain ⟨p1, sa, ha, hb2⟩ := M.bind_ok hb
      have inn := foldM_all (C := fun s s' e => Considered P h rates avgs s s' e) innerOK innerStep
        (fun _ _ _ _ h0 hc => hc.mono_left h0) (fun _ _ _ _ hc h2 => hc.mono_right h2) _ _ _ _ _ ha e he
      have st : Step ext (if h ≥ P.act.convLimit ∧ h < P.act.v4 then (do
          recordPegRequests P h rates avgs p1 P.bankBase ((h : Int) - 1)
          pure []) else (pure p1 : LM (List TxEntry))) := by
        apply Step.ite
        · exact Step.bind (recordPegRequests_step ok rates avgs p1 _ _) (fun _ => Step.pure _)
        · exact Step.pure _
      exact inn.mono_right (st.ok hb2))
    (by
      intro pend i
      apply Step.bind (Step.foldM innerStep)
      intro p1
      apply Step.ite
      · exact Step.bind (recordPegRequests_step ok rates avgs p1 _ _) (fun _ => Step.pure _)
      · exact Step.pure _)
    (fun _ _ _ _ h0 hc e he => (hc e he).mono_left h0)
    (fun _ _ _ _ hc h2 e he => (hc e he).mono_right h2)
    _ _ _ _ _ h1 row.height
    (by
      simp only [List.mem_map, List.mem_range]
      exact ⟨row.height - fromH, by omega, by omega⟩)
  exact key row.entry (by
    simp only [List.mem_map, List.mem_filter]
    exact ⟨row, ⟨hrow, by simp⟩, rfl⟩)

end

/-! ### lifted to the whole block transaction -/

section
variable {P : Params} {c : DB} {b : Block} {avgs : TMap}

theorem holdingPhase_considers (hpos : 0 < b.height) {s s' : DB} (hr : holdingPhase P c b avgs true s = .ok () s') :
    ∃ rates, ∀ row ∈ c.holding, (c.mostRecentRatesBefore b.height).2 ≤ row.height → row.height < b.height →
      Considered P b.height rates avgs s s' row.entry := by
  have ok := primsOK_ext P b.height
  unfold holdingPhase at hr
  simp only [↓reduceIte] at hr
  -- the part after the optional bank row
  have tail : ∀ s1, (do
        M.guarded (fun _ => none) fun db => { db with avgTouched := true }
        let db ← M.get
        applyHolding P c b.height (ratesToMap P (db.ratesAt b.height)) avgs (c.mostRecentRatesBefore b.height).2 : LM Unit) s1 = .ok () s' →
      ∃ rates, ∀ row ∈ c.holding, (c.mostRecentRatesBefore b.height).2 ≤ row.height → row.height < b.height →
        Considered P b.height rates avgs s1 s' row.entry := by
    intro s1 ht
    obtain ⟨_, s2, h3, h4⟩ := M.bind_ok ht
    obtain ⟨db, s3, h5, h6⟩ := M.bind_ok h4
    simp only [M.get_run] at h5
    injection h5 with hdb hs3
    subst hs3
    have e2 : ext.r s1 s2 := ok.touch.ok h3
    exact ⟨ratesToMap P (db.ratesAt b.height), fun row hrow hlo hhi =>
      (applyHolding_considers hpos h6 row hrow hlo hhi).mono_left e2⟩
  split at hr
  · obtain ⟨_, s1, h1, h2⟩ := M.bind_ok hr
    have e1 : ext.r s s1 := (ok.insertBank _).ok h1
    obtain ⟨rates, hc⟩ := tail s1 h2
    exact ⟨rates, fun row hrow hlo hhi => (hc row hrow hlo hhi).mono_left e1⟩
  · exact tail s hr

theorem txPhase_considers (hpos : 0 < b.height) {s s' : DB} (hr : txPhase P c b avgs true s = .ok () s') (htx : b.height ≥ P.act.txConv) :
    ∃ rates, ∀ row ∈ c.holding, (c.mostRecentRatesBefore b.height).2 ≤ row.height → row.height < b.height →
      Considered P b.height rates avgs s s' row.entry := by
  have ok := primsOK_ext P b.height
  unfold txPhase at hr
  simp only [htx, ↓reduceIte] at hr
  obtain ⟨_, s1, h1, h2⟩ := M.bind_ok hr
  obtain ⟨_, s2, h3, h4⟩ := M.bind_ok h2
  obtain ⟨rates, hc⟩ := holdingPhase_considers hpos h3
  have e1 : ext.r s s1 := (snapshotPhase_step b ok).ok h1
  have e3 : ext.r s2 s' := (txBlockPhase_step b ok hlog_ext).ok h4
  exact ⟨rates, fun row hrow hlo hhi => ((hc row hrow hlo hhi).mono_left e1).mono_right e3⟩

/-- **Block level.** When the block transaction of a block at or above the transaction
    activation succeeds, then either the block had no usable rates (grading returned early or
    without rates — conversions wait), or every batch held at a height of the window
    `[last rated height, this height)` has been considered: a status was written for it during
    this block, or it bears a replay mark, or its conversion was not computable (dropped). -/
theorem block_considers_held (hpos : 0 < b.height) {s' : DB} (hrun : blockTx P c b avgs c = .ok () s') (htx : b.height ≥ P.act.txConv) :
    (∃ s1 s2 st, gradeAndRates P c b s1 = .ok st s2 ∧ st ≠ .cont true) ∨
    ∃ rates, ∀ row ∈ c.holding, (c.mostRecentRatesBefore b.height).2 ≤ row.height → row.height < b.height →
      Considered P b.height rates avgs c s' row.entry := by
  have ok := primsOK_ext P b.height
  unfold blockTx at hrun
  obtain ⟨_, s1, h1, h2⟩ := M.bind_ok hrun
  obtain ⟨_, s2, h3, h4⟩ := M.bind_ok h2
  have e0 : ext.r c s1 := (burnZeroing_step c b ok hlog_ext).ok h1
  have e9 : ext.r s2 s' := (ok.markSynced _).ok h4
  unfold syncBlock at h3
  obtain ⟨_, s3, h5, h6⟩ := M.bind_ok h3
  obtain ⟨_, s4, h7, h8⟩ := M.bind_ok h6
  obtain ⟨st, s5, h9, h10⟩ := M.bind_ok h8
  have e1 : ext.r s1 s3 := (preAdjust_step c b ok hlog_ext).ok h5
  have e2 : ext.r s3 s4 := (sprPanicCheck_step (P := P) b ok).ok h7
  have e3 : ext.r s4 s5 := (gradeAndRates_step c b ok).ok h9
  cases st with
  | earlyReturn => exact Or.inl ⟨s4, s5, _, h9, by intro hh; cases hh⟩
  | cont ra =>
    cases ra with
    | false => exact Or.inl ⟨s4, s5, _, h9, by intro hh; cases hh⟩
    | true =>
      right
      simp only at h10
      obtain ⟨_, s6, h11, h12⟩ := M.bind_ok h10
      obtain ⟨rates, hc⟩ := txPhase_considers hpos h11 htx
      have e4 : ext.r s6 s2 := (rewardPhase_step b ok).ok h12
      have pre : ext.r c s5 := ext.trans _ _ _ e0 (ext.trans _ _ _ e1 (ext.trans _ _ _ e2 e3))
      exact ⟨rates, fun row hrow hlo hhi =>
        ((hc row hrow hlo hhi).mono_left pre).mono_right (ext.trans _ _ _ e4 e9)⟩

end

end Pegnet
