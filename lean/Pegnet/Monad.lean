import Pegnet.Basic
/-
  The model monad.  `M σ α = σ → Res σ α`, hand-rolled (DESIGN §3.5): a failure carries the
  state reached when it happened, because two call sites of the Go code swallow an error and
  keep the partial effects (`NullifyBurnAddress`, `DevelopersPayouts`).
-/
namespace Pegnet

inductive Failure where
  | sqlConstraint (table : String)
  | sqlError (what : String)
  | uncaught (what : String)
  | panic (site : String)
  | grader (what : String)
  | upstream (what : String)
  deriving Repr, DecidableEq

def Failure.kind : Failure → String
  | .sqlConstraint t => "constraint:" ++ t
  | .sqlError w => "sqlerror:" ++ w
  | .uncaught w => "uncaught:" ++ w
  | .panic s => "panic:" ++ s
  | .grader w => "grader:" ++ w
  | .upstream w => "upstream:" ++ w

inductive Res (σ α : Type) where
  | ok (a : α) (s : σ)
  | fail (e : Failure) (s : σ)

def M (σ α : Type) := σ → Res σ α

namespace M
variable {σ α β : Type}

@[inline] def pure (a : α) : M σ α := fun s => .ok a s
@[inline] def bind (m : M σ α) (f : α → M σ β) : M σ β := fun s =>
  match m s with
  | .ok a s' => f a s'
  | .fail e s' => .fail e s'

instance : Monad (M σ) where
  pure := M.pure
  bind := M.bind

@[inline] def get : M σ σ := fun s => .ok s s
@[inline] def set (s : σ) : M σ Unit := fun _ => .ok () s
@[inline] def modify (f : σ → σ) : M σ Unit := fun s => .ok () (f s)
@[inline] def throw (e : Failure) : M σ α := fun s => .fail e s

/-- a primitive table operation: fail with `g s` (state unchanged) or apply the update `u` -/
@[inline] def guarded (g : σ → Option Failure) (u : σ → σ) : M σ Unit := fun s =>
  match g s with
  | some e => .fail e s
  | none => .ok () (u s)

/-- run `m`; if it fails keep the state it reached and report `false` (a swallowed error). -/
@[inline] def swallow (m : M σ Unit) : M σ Bool := fun s =>
  match m s with
  | .ok _ s' => .ok true s'
  | .fail _ s' => .ok false s'

def forEach : List α → (α → M σ Unit) → M σ Unit
  | [], _ => M.pure ()
  | x :: xs, f => M.bind (f x) (fun _ => forEach xs f)

/-- left fold with an accumulator -/
def foldM {β : Type} (f : β → α → M σ β) : β → List α → M σ β
  | b, [] => M.pure b
  | b, x :: xs => M.bind (f b x) (fun b' => foldM f b' xs)

/-- indexed loop -/
def forEachIdx (l : List α) (f : Nat → α → M σ Unit) : M σ Unit :=
  forEach (l.zipIdx) (fun p => f p.2 p.1)

end M

@[simp] theorem M.pure_run {σ α} (a : α) (s : σ) : (Pure.pure a : M σ α) s = .ok a s := rfl
@[simp] theorem M.pure_run' {σ α} (a : α) (s : σ) : (M.pure a : M σ α) s = .ok a s := rfl
@[simp] theorem M.get_run {σ} (s : σ) : (M.get : M σ σ) s = .ok s s := rfl
@[simp] theorem M.set_run {σ} (s t : σ) : (M.set t : M σ Unit) s = .ok () t := rfl
@[simp] theorem M.modify_run {σ} (f : σ → σ) (s : σ) : (M.modify f : M σ Unit) s = .ok () (f s) := rfl
@[simp] theorem M.throw_run {σ α} (e : Failure) (s : σ) : (M.throw e : M σ α) s = .fail e s := rfl
theorem M.bind_run {σ α β} (m : M σ α) (f : α → M σ β) (s : σ) :
    (m >>= f) s = match m s with | .ok a s' => f a s' | .fail e s' => .fail e s' := rfl

end Pegnet
