import Pegnet.Json
/-
  C20: the expected-length accounting of the fat2 decoders is SOUND as a duplicate / unknown key
  filter. Each decoder computes, from the raw values it picked out of the object, the length the
  object would have if it consisted of exactly the expected keys, once each, and compares it with
  the actual (compacted) length. Here: equality of the two lengths forces exactly that.

  The one assumption about the tokeniser is `J.WF`: a key's raw lexeme is at least two bytes (the
  quotes) longer than its decoded value has characters — true of every JSON string.
-/
namespace Pegnet

abbrev Field := String × String × J

/-- the tokeniser's contract on keys -/
def Field.wf (f : Field) : Prop := f.2.1.length + 2 ≤ f.1.utf8ByteSize

/-- weight of a field inside an object's text, without separating comma -/
def Field.w (f : Field) : Nat := f.1.utf8ByteSize + 1 + J.len f.2.2

theorem lenFields_eq (fs : List Field) : J.lenFields fs = (fs.map Field.w).sum := by
  induction fs with
  | nil => rfl
  | cons f fs ih => simp only [J.lenFields, List.map_cons, List.sum_cons, ih, Field.w]

theorem len_obj (fs : List Field) : J.len (.obj fs) = 2 + (fs.map Field.w).sum + (fs.length - 1) := by
  simp only [J.len, lenFields_eq]

theorem foldKey_length (k : String) : (foldKey k).length = k.length := by
  unfold foldKey
  simp [String.length]

/-- a field that fills the struct field `name` weighs at least `name` with its quotes, the colon
    and its value -/
theorem weight_of_match {name : String} {f : Field} (hwf : Field.wf f) (hm : fieldIs name f = true) :
    name.length + 3 + J.len f.2.2 ≤ Field.w f := by
  unfold fieldIs at hm
  have hk : foldKey f.2.1 = name := by simpa using hm
  have hl : f.2.1.length = name.length := by rw [← hk, foldKey_length]
  unfold Field.wf at hwf
  unfold Field.w
  omega

theorem weight_pos (f : Field) : 1 ≤ Field.w f := by unfold Field.w; omega

/-- a field matches at most one of two different names -/
theorem fieldIs_unique {n₁ n₂ : String} {f : Field} (h1 : fieldIs n₁ f = true) (h2 : fieldIs n₂ f = true) : n₁ = n₂ := by
  unfold fieldIs at h1 h2
  have a : foldKey f.2.1 = n₁ := by simpa using h1
  have b : foldKey f.2.1 = n₂ := by simpa using h2
  exact a.symm.trans b

/-- sum over a list splits along a predicate -/
theorem sum_filter_split (fs : List Field) (p : Field → Bool) (g : Field → Nat) :
    (fs.map g).sum = ((fs.filter p).map g).sum + ((fs.filter (fun f => !p f)).map g).sum := by
  induction fs with
  | nil => rfl
  | cons f fs ih =>
    by_cases hp : p f = true
    · simp [hp, ih]; omega
    · have : p f = false := by simpa using hp
      simp [this, ih]; omega

theorem length_filter_split (fs : List Field) (p : Field → Bool) :
    fs.length = (fs.filter p).length + (fs.filter (fun f => !p f)).length := by
  induction fs with
  | nil => rfl
  | cons f fs ih =>
    by_cases hp : p f = true
    · simp [hp, ih]; omega
    · have : p f = false := by simpa using hp
      simp [this, ih]; omega

/-- the fields that match none of the names -/
def restFields (names : List String) (fs : List Field) : List Field :=
  fs.filter (fun f => !(names.any (fun n => fieldIs n f)))

theorem restFields_cons (n : String) (names : List String) (fs : List Field) :
    restFields (n :: names) fs = (restFields names fs).filter (fun f => !(fieldIs n f)) := by
  unfold restFields
  rw [List.filter_filter]
  congr 1
  funext f
  simp only [List.any_cons, Bool.not_or, Bool.and_comm]

theorem filter_rest_eq (n : String) (names : List String) (hn : n ∉ names) (fs : List Field) :
    (restFields names fs).filter (fieldIs n) = fs.filter (fieldIs n) := by
  unfold restFields
  rw [List.filter_filter]
  apply List.filter_congr
  intro f _
  by_cases hf : fieldIs n f = true
  · have : names.any (fun m => fieldIs m f) = false := by
      cases hany : names.any (fun m => fieldIs m f) with
      | false => rfl
      | true =>
        obtain ⟨m, hm, hfm⟩ := List.any_eq_true.1 hany
        exact absurd (fieldIs_unique hfm hf ▸ hm) hn
    simp [hf, this]
  · have : fieldIs n f = false := by simpa using hf
    simp [this]

/-- weights and counts split into the buckets of the names and the rest -/
theorem buckets_split (g : Field → Nat) :
    ∀ (names : List String), names.Nodup → ∀ fs : List Field,
      (fs.map g).sum = (names.map (fun n => ((fs.filter (fieldIs n)).map g).sum)).sum + ((restFields names fs).map g).sum
  | [], _, fs => by
    have : restFields [] fs = fs := by
      unfold restFields
      simp
    rw [this]; simp
  | n :: names, hnd, fs => by
    have hn : n ∉ names := (List.nodup_cons.1 hnd).1
    have ih := buckets_split g names (List.nodup_cons.1 hnd).2 fs
    have e1 := sum_filter_split (restFields names fs) (fieldIs n) g
    rw [filter_rest_eq n names hn fs] at e1
    have e2 : restFields (n :: names) fs = (restFields names fs).filter (fun f => !(fieldIs n f)) := restFields_cons n names fs
    rw [ih, e1, e2]
    simp only [List.map_cons, List.sum_cons]
    generalize ((List.filter (fun f => !fieldIs n f) (restFields names fs)).map g).sum = X
    omega

theorem lookup_some_bucket {fs : List Field} {n : String} {v : J} (h : lookupField fs n = some v) :
    ∃ fl, (fs.filter (fieldIs n)).getLast? = some fl ∧ fl.2.2 = v := by
  unfold lookupField at h
  cases hl : (fs.filter (fieldIs n)).getLast? with
  | none => rw [hl] at h; cases h
  | some fl => rw [hl] at h; exact ⟨fl, rfl, by simpa using h⟩

/-- a non-empty bucket weighs at least its selected (last) field plus one per further field -/
theorem bucket_weight {fs : List Field} {n : String} {v : J} (hwf : ∀ f ∈ fs, Field.wf f) (h : lookupField fs n = some v) :
    n.length + 3 + J.len v + ((fs.filter (fieldIs n)).length - 1) ≤ ((fs.filter (fieldIs n)).map Field.w).sum ∧
    1 ≤ (fs.filter (fieldIs n)).length := by
  obtain ⟨fl, hlast, hv⟩ := lookup_some_bucket h
  generalize hb : fs.filter (fieldIs n) = b at hlast
  have hmem : ∀ f ∈ b, Field.wf f ∧ fieldIs n f = true := by
    intro f hf
    rw [← hb] at hf
    exact ⟨hwf f (List.mem_filter.1 hf).1, (List.mem_filter.1 hf).2⟩
  -- split off the last element
  have hne : b ≠ [] := by intro he; rw [he] at hlast; cases hlast
  have hsplit : b = b.dropLast ++ [fl] := by
    have := List.dropLast_concat_getLast hne
    rw [List.getLast?_eq_some_getLast hne] at hlast
    injection hlast with hlast
    rw [hlast] at this
    exact this.symm
  have hflm : fl ∈ b := by rw [hsplit]; simp
  have hw := weight_of_match (hmem fl hflm).1 (hmem fl hflm).2
  have hrest : b.dropLast.length ≤ (b.dropLast.map Field.w).sum := by
    generalize b.dropLast = l
    induction l with
    | nil => simp
    | cons x xs ih => simp only [List.length_cons, List.map_cons, List.sum_cons]; have := weight_pos x; omega
  constructor
  · rw [hsplit]
    simp only [List.map_append, List.sum_append, List.map_cons, List.map_nil, List.sum_cons, List.sum_nil,
      List.length_append, List.length_cons, List.length_nil]
    rw [hv] at hw
    omega
  · rw [hsplit]; simp

theorem rest_weight (l : List Field) : l.length ≤ (l.map Field.w).sum := by
  induction l with
  | nil => simp
  | cons x xs ih => simp only [List.length_cons, List.map_cons, List.sum_cons]; have := weight_pos x; omega

/-- **Soundness of the length accounting.** Let `names` be distinct field names all of which the
    object supplies (values `vals`). If the object's length equals the length of an object made of
    exactly those keys, once each, with those values — `2 + Σ (|name| + 3 + |value|) + (n-1)` — then
    the object has exactly `n` fields: each name is matched by exactly one field and no field
    matches none. -/
theorem accounting_sound (names : List String) (hnd : names.Nodup) (hne : names ≠ []) (fs : List Field)
    (hwf : ∀ f ∈ fs, Field.wf f) (vals : String → J) (hpres : ∀ n ∈ names, lookupField fs n = some (vals n))
    (hlen : J.len (.obj fs) ≤ 2 + (names.map (fun n => n.length + 3 + J.len (vals n))).sum + (names.length - 1)) :
    (∀ n ∈ names, (fs.filter (fieldIs n)).length = 1) ∧ restFields names fs = [] := by
  rw [len_obj] at hlen
  have hw := buckets_split Field.w names hnd fs
  have hc := buckets_split (fun _ => 1) names hnd fs
  have hcount : ∀ l : List Field, (l.map (fun _ => 1)).sum = l.length := by
    intro l; induction l with
    | nil => rfl
    | cons _ _ ih => simp only [List.map_cons, List.sum_cons, List.length_cons, ih]; omega
  simp only [hcount] at hc
  -- per-name inequality, summed over the names
  have key : ∀ (ns : List String), (∀ n ∈ ns, lookupField fs n = some (vals n)) →
      (ns.map (fun n => n.length + 3 + J.len (vals n))).sum + (ns.map (fun n => (fs.filter (fieldIs n)).length)).sum
        + (ns.map (fun n => (fs.filter (fieldIs n)).length - 1)).sum ≤
      (ns.map (fun n => ((fs.filter (fieldIs n)).map Field.w).sum)).sum + (ns.map (fun n => (fs.filter (fieldIs n)).length)).sum ∧
      ns.length ≤ (ns.map (fun n => (fs.filter (fieldIs n)).length)).sum := by
    intro ns
    induction ns with
    | nil => intro _; simp
    | cons n ns ih =>
      intro hp
      obtain ⟨h1, h2⟩ := bucket_weight hwf (hp n List.mem_cons_self)
      obtain ⟨i1, i2⟩ := ih (fun m hm => hp m (List.mem_cons_of_mem _ hm))
      simp only [List.map_cons, List.sum_cons, List.length_cons]
      omega
  obtain ⟨k1, k2⟩ := key names hpres
  have hr := rest_weight (restFields names fs)
  have hnl : 1 ≤ names.length := by
    cases names with
    | nil => exact absurd rfl hne
    | cons _ _ => simp
  -- the slack: Σ (c_k - 1) + 2·|rest| ≤ 0
  have hslack : (names.map (fun n => (fs.filter (fieldIs n)).length - 1)).sum + (restFields names fs).length = 0 := by
    omega
  have hrest0 : (restFields names fs).length = 0 := by omega
  have hsum0 : (names.map (fun n => (fs.filter (fieldIs n)).length - 1)).sum = 0 := by omega
  refine ⟨fun n hn => ?_, List.eq_nil_of_length_eq_zero hrest0⟩
  have hge := (bucket_weight hwf (hpres n hn)).2
  have hz : (fs.filter (fieldIs n)).length - 1 = 0 := by
    have : ∀ (l : List String) (g : String → Nat), (l.map g).sum = 0 → ∀ x ∈ l, g x = 0 := by
      intro l g
      induction l with
      | nil => intro _ x hx; cases hx
      | cons y ys ih =>
        intro hs x hx
        simp only [List.map_cons, List.sum_cons] at hs
        rcases List.mem_cons.1 hx with rfl | hx
        · omega
        · exact ih (by omega) x hx
    exact this names _ hsum0 n hn
  omega


/-! ### the tokeniser's contract, for a whole tree -/

mutual
  /-- every key lexeme is at least two bytes longer than its decoded key has characters, and every
      string lexeme at least two bytes longer than its decoded value has bytes -/
  def J.WF : J → Prop
    | .str lex val _ => val.utf8ByteSize + 2 ≤ lex.utf8ByteSize
    | .arr items => J.WFItems items
    | .obj fs => J.WFFields fs
    | _ => True
  def J.WFItems : List J → Prop
    | [] => True
    | x :: xs => J.WF x ∧ J.WFItems xs
  def J.WFFields : List Field → Prop
    | [] => True
    | f :: fs => Field.wf f ∧ J.WF f.2.2 ∧ J.WFFields fs
end

theorem wfFields_mem {fs : List Field} (h : J.WFFields fs) : ∀ f ∈ fs, Field.wf f ∧ J.WF f.2.2 := by
  induction fs with
  | nil => intro f hf; cases hf
  | cons g gs ih =>
    intro f hf
    simp only [J.WFFields] at h
    rcases List.mem_cons.1 hf with rfl | hf
    · exact ⟨h.1, h.2.1⟩
    · exact ih h.2.2 f hf

theorem wfItems_mem {xs : List J} (h : J.WFItems xs) : ∀ x ∈ xs, J.WF x := by
  induction xs with
  | nil => intro x hx; cases hx
  | cons y ys ih =>
    intro x hx
    simp only [J.WFItems] at h
    rcases List.mem_cons.1 hx with rfl | hx
    · exact h.1
    · exact ih h.2 x hx

theorem lookup_mem {fs : List Field} {n : String} {v : J} (h : lookupField fs n = some v) :
    ∃ f ∈ fs, f.2.2 = v := by
  obtain ⟨fl, hl, hv⟩ := lookup_some_bucket h
  have : fl ∈ fs.filter (fieldIs n) := List.mem_of_getLast? hl
  exact ⟨fl, (List.mem_filter.1 this).1, hv⟩

theorem lookup_wf {fs : List Field} {n : String} {v : J} (hwf : J.WFFields fs) (h : lookupField fs n = some v) : J.WF v := by
  obtain ⟨f, hf, hv⟩ := lookup_mem h
  rw [← hv]; exact (wfFields_mem hwf f hf).2

/-- "exactly these keys, once each, and no other" (keys compared as `encoding/json` does) -/
def exactKeys (names : List String) (fs : List Field) : Prop :=
  (∀ n ∈ names, (fs.filter (fieldIs n)).length = 1) ∧ restFields names fs = []

/-! ### AddressAmountTuple -/

theorem decTuple_keys {P : Params} {j : J} {tr : Transfer} (hwf : J.WF j) (h : decTuple P j = some tr) :
    ∃ fs, j = .obj fs ∧ exactKeys ["address", "amount"] fs := by
  unfold decTuple at h
  cases j with
  | obj fs =>
    refine ⟨fs, rfl, ?_⟩
    simp only at h
    cases ha : lookupField fs "address" with
    | none => rw [ha] at h; cases h
    | some aj =>
      cases hn : lookupField fs "amount" with
      | none => rw [ha, hn] at h; cases h
      | some nj =>
        rw [ha, hn] at h
        simp only at h
        cases hda : decAddr P aj with
        | none => rw [hda] at h; simp at h
        | some a =>
          cases hdn : decUint nj with
          | none => rw [hda, hdn] at h; simp at h
          | some n =>
            rw [hda, hdn] at h
            simp only at h
            by_cases hl : 22 + J.len aj + J.len nj = J.len (.obj fs)
            · have hw : ∀ f ∈ fs, Field.wf f := fun f hf => (wfFields_mem (by simpa [J.WF] using hwf) f hf).1
              apply accounting_sound ["address", "amount"] (by decide) (by simp) fs hw
                (fun n => if n = "address" then aj else nj)
              · intro n hn'
                simp only [List.mem_cons, List.mem_nil_iff, or_false] at hn'
                rcases hn' with rfl | rfl
                · simpa using ha
                · simpa using hn
              · rw [← hl]
                simp only [List.map_cons, List.map_nil, List.sum_cons, List.sum_nil, List.length_cons, List.length_nil]
                have e1 : "address".length = 7 := by decide
                have e2 : "amount".length = 6 := by decide
                simp [e1, e2]
                omega
            · rw [if_neg hl] at h; cases h
  | _ => simp at h


/-! ### TypedAddressAmountTuple -/

theorem tickerName_of_string {P : Params} {s : String} {ty : Ticker} (h : stringToTicker P s = ty)
    (hv : validTicker P ty = true) : tickerName P ty = s := by
  unfold stringToTicker at h
  unfold tickerName
  rw [if_pos hv]
  cases hf : P.tickerNames.findIdx? (· == s) with
  | none =>
    rw [hf] at h
    simp only at h
    subst h
    simp [validTicker] at hv
  | some i =>
    rw [hf] at h
    simp only at h
    subst h
    obtain ⟨hi, hp, _⟩ := List.findIdx?_eq_some_iff_getElem.1 hf
    simp only [Nat.add_sub_cancel]
    rw [List.getD_eq_getElem?_getD, List.getElem?_eq_getElem hi]
    simpa using hp

theorem size_ofList_cons (c : Char) (cs : List Char) :
    (String.ofList (c :: cs)).utf8ByteSize = (String.ofList [c]).utf8ByteSize + (String.ofList cs).utf8ByteSize := by
  have : c :: cs = [c] ++ cs := rfl
  rw [this, String.ofList_append, String.utf8ByteSize_append]

theorem size_ofList_append (l₁ l₂ : List Char) :
    (String.ofList (l₁ ++ l₂)).utf8ByteSize = (String.ofList l₁).utf8ByteSize + (String.ofList l₂).utf8ByteSize := by
  rw [String.ofList_append, String.utf8ByteSize_append]

theorem size_ofList_reverse (l : List Char) : (String.ofList l.reverse).utf8ByteSize = (String.ofList l).utf8ByteSize := by
  induction l with
  | nil => rfl
  | cons c cs ih =>
    rw [List.reverse_cons, size_ofList_append, ih, size_ofList_cons c cs]
    omega

theorem size_dropWhile_le (p : Char → Bool) (l : List Char) :
    (String.ofList (l.dropWhile p)).utf8ByteSize ≤ (String.ofList l).utf8ByteSize := by
  induction l with
  | nil => exact Nat.le_refl _
  | cons c cs ih =>
    simp only [List.dropWhile_cons]
    split
    · rw [size_ofList_cons c cs]; omega
    · exact Nat.le_refl _

theorem trimQuotes_size_le (s : String) : (trimQuotes s).utf8ByteSize ≤ s.utf8ByteSize := by
  unfold trimQuotes
  calc (String.ofList ((s.toList.dropWhile (· == '"')).reverse.dropWhile (· == '"')).reverse).utf8ByteSize
      = (String.ofList ((s.toList.dropWhile (· == '"')).reverse.dropWhile (· == '"'))).utf8ByteSize := size_ofList_reverse _
    _ ≤ (String.ofList (s.toList.dropWhile (· == '"')).reverse).utf8ByteSize := size_dropWhile_le _ _
    _ = (String.ofList (s.toList.dropWhile (· == '"'))).utf8ByteSize := size_ofList_reverse _
    _ ≤ (String.ofList s.toList).utf8ByteSize := size_dropWhile_le _ _
    _ = s.utf8ByteSize := by simp

/-- the canonical spelling of a decoded ticker is no longer than the bytes it was decoded from -/
theorem tickerOfBytes_size {P : Params} {data : String} {ty : Ticker} (h : tickerOfBytes P data = some ty)
    (hv : validTicker P ty = true) : (tickerName P ty).utf8ByteSize ≤ data.utf8ByteSize := by
  unfold tickerOfBytes at h
  by_cases he : data.isEmpty = true
  · rw [if_pos he] at h; cases h
  · rw [if_neg he] at h
    simp only at h
    by_cases hq : (data.toList.head? == some '"') = true
    · simp only [hq, if_true] at h
      by_cases h3 : (trimQuotes data).utf8ByteSize < 3
      · rw [if_pos h3] at h; cases h
      · rw [if_neg h3] at h
        by_cases h0 : stringToTicker P (trimQuotes data) = 0
        · rw [if_pos h0] at h; cases h
        · rw [if_neg h0] at h
          injection h with h
          rw [tickerName_of_string h hv]
          exact trimQuotes_size_le data
    · simp only [hq, if_false, Bool.false_eq_true] at h
      by_cases h3 : data.utf8ByteSize < 3
      · rw [if_pos h3] at h; cases h
      · rw [if_neg h3] at h
        by_cases h0 : stringToTicker P data = 0
        · rw [if_pos h0] at h; cases h
        · rw [if_neg h0] at h
          injection h with h
          rw [tickerName_of_string h hv]
          exact Nat.le_refl _


theorem decTyped_keys {P : Params} {j : J} {r : Addr × Nat × Ticker} (hwf : J.WF j) (h : decTyped P j = some r) :
    ∃ fs, j = .obj fs ∧ exactKeys ["address", "amount", "type"] fs := by
  unfold decTyped at h
  cases j with
  | obj fs =>
    refine ⟨fs, rfl, ?_⟩
    have hwff : J.WFFields fs := by simpa [J.WF] using hwf
    simp only at h
    cases ht : lookupField fs "type" with
    | none =>
      -- the type stays PTickerInvalid: refused
      rw [ht] at h
      simp only at h
      cases ha : lookupField fs "address" with
      | none => rw [ha] at h; simp at h
      | some aj =>
        cases hn : lookupField fs "amount" with
        | none => rw [ha, hn] at h; simp at h
        | some nj =>
          rw [ha, hn] at h
          simp only at h
          cases hda : decAddr P aj with
          | none => rw [hda] at h; simp at h
          | some a =>
            cases hdn : decUint nj with
            | none => rw [hda, hdn] at h; simp at h
            | some n =>
              rw [hda, hdn] at h
              simp [validTicker] at h
    | some tj =>
      rw [ht] at h
      simp only at h
      cases hdt : decTickerQuoted P tj with
      | none => rw [hdt] at h; cases h
      | some ty =>
        rw [hdt] at h
        simp only at h
        cases ha : lookupField fs "address" with
        | none => rw [ha] at h; simp at h
        | some aj =>
          cases hn : lookupField fs "amount" with
          | none => rw [ha, hn] at h; simp at h
          | some nj =>
            rw [ha, hn] at h
            simp only at h
            cases hda : decAddr P aj with
            | none => rw [hda] at h; simp at h
            | some a =>
              cases hdn : decUint nj with
              | none => rw [hda, hdn] at h; simp at h
              | some n =>
                rw [hda, hdn] at h
                simp only at h
                by_cases hv : validTicker P ty = true
                · simp only [hv, not_true_eq_false, if_false] at h
                  by_cases hl : 32 + J.len aj + J.len nj + (tickerName P ty).utf8ByteSize = J.len (.obj fs)
                  · -- the "type" value is a string whose lexeme is at least two bytes longer than the ticker
                    have htl : (tickerName P ty).utf8ByteSize + 2 ≤ J.len tj := by
                      unfold decTickerQuoted at hdt
                      cases tj with
                      | str lex val ad =>
                        simp only at hdt
                        have h1 := tickerOfBytes_size hdt hv
                        have h2 : val.utf8ByteSize + 2 ≤ lex.utf8ByteSize := by
                          have := lookup_wf hwff ht
                          simpa [J.WF] using this
                        simp only [J.len]
                        omega
                      | _ => simp at hdt
                    have hw : ∀ f ∈ fs, Field.wf f := fun f hf => (wfFields_mem hwff f hf).1
                    apply accounting_sound ["address", "amount", "type"] (by decide) (by simp) fs hw
                      (fun n => if n = "address" then aj else if n = "amount" then nj else tj)
                    · intro n hn'
                      simp only [List.mem_cons, List.mem_nil_iff, or_false] at hn'
                      rcases hn' with rfl | rfl | rfl
                      · simpa using ha
                      · simpa using hn
                      · simpa using ht
                    · rw [← hl]
                      have e1 : "address".length = 7 := by decide
                      have e2 : "amount".length = 6 := by decide
                      have e3 : "type".length = 4 := by decide
                      simp [e1, e2, e3]
                      omega
                  · rw [if_neg hl] at h; cases h
                · simp [hv] at h
  | _ => simp at h


/-! ### Transaction -/

/-- the optional key of a transaction object -/
def metaNames (fs : List Field) : List String :=
  if (lookupField fs "metadata").isSome then ["metadata"] else []

theorem decTx_keys {P : Params} {j : J} {t : Tx} (hwf : J.WF j) (h : decTx P j = some t)
    (hval : t.transfers ≠ [] ∨ t.isConversion P = true) :
    ∃ fs ij, j = .obj fs ∧ lookupField fs "input" = some ij ∧ (decTyped P ij).isSome = true ∧
      exactKeys ("input" :: (if t.isConversion P then "conversion" else "transfers") :: metaNames fs) fs := by
  unfold decTx at h
  cases j with
  | obj fs =>
    have hwff : J.WFFields fs := by simpa [J.WF] using hwf
    have hw : ∀ f ∈ fs, Field.wf f := fun f hf => (wfFields_mem hwff f hf).1
    simp only at h
    cases hi : lookupField fs "input" with
    | none => rw [hi] at h; cases h
    | some ij =>
      rw [hi] at h
      simp only at h
      cases hdi : decTyped P ij with
      | none => rw [hdi] at h; cases h
      | some r =>
        obtain ⟨a, n, ty⟩ := r
        rw [hdi] at h
        simp only at h
        refine ⟨fs, ij, rfl, hi, by rw [hdi]; rfl, ?_⟩
        cases htr : decTransfersField P (lookupField fs "transfers") with
        | none => rw [htr] at h; cases h
        | some trs =>
          rw [htr] at h
          simp only at h
          cases hcv : decConversionField P (lookupField fs "conversion") with
          | none => rw [hcv] at h; cases h
          | some conv =>
            rw [hcv] at h
            simp only at h
            by_cases hlen : expectedTxLen P fs ij { inAddr := a, inType := ty, inAmount := n, transfers := trs, conversion := conv } = J.len (.obj fs)
            · rw [if_pos hlen] at h
              unfold expectedTxLen at hlen
              injection h with h
              subst h
              have e1 : "input".length = 5 := by decide
              have e2 : "conversion".length = 10 := by decide
              have e3 : "transfers".length = 9 := by decide
              have e4 : "metadata".length = 8 := by decide
              by_cases hc : (({ inAddr := a, inType := ty, inAmount := n, transfers := trs, conversion := conv } : Tx).isConversion P) = true
              · -- conversion: the key is present (an absent key leaves the ticker at 0)
                rw [if_pos hc] at hlen ⊢
                cases hcj : lookupField fs "conversion" with
                | none =>
                  rw [hcj] at hcv
                  simp only [decConversionField] at hcv
                  injection hcv with hcv
                  subst hcv
                  simp [Tx.isConversion] at hc
                | some cj =>
                  rw [hcj] at hlen
                  simp only [optLen] at hlen
                  unfold metaNames
                  cases hm : lookupField fs "metadata" with
                  | none =>
                    rw [hm] at hlen
                    simp only [Option.isSome_none, Bool.false_eq_true, if_false]
                    apply accounting_sound ["input", "conversion"] (by decide) (by simp) fs hw
                      (fun x => if x = "input" then ij else cj)
                    · intro x hx
                      simp only [List.mem_cons, List.mem_nil_iff, or_false] at hx
                      rcases hx with rfl | rfl
                      · simpa using hi
                      · simpa using hcj
                    · rw [← hlen]; simp [e1, e2]; omega
                  | some mj =>
                    rw [hm] at hlen
                    simp only [Option.isSome_some, if_true]
                    apply accounting_sound ["input", "conversion", "metadata"] (by decide) (by simp) fs hw
                      (fun x => if x = "input" then ij else if x = "conversion" then cj else mj)
                    · intro x hx
                      simp only [List.mem_cons, List.mem_nil_iff, or_false] at hx
                      rcases hx with rfl | rfl | rfl
                      · simpa using hi
                      · simpa using hcj
                      · simpa using hm
                    · rw [← hlen]; simp [e1, e2, e4]; omega
              · -- transfers: non-empty, hence the key is present
                rw [if_neg hc] at hlen ⊢
                have hne : trs ≠ [] := by
                  rcases hval with hv | hv
                  · exact hv
                  · exact absurd hv hc
                cases htj : lookupField fs "transfers" with
                | none =>
                  rw [htj] at htr
                  simp only [decTransfersField] at htr
                  injection htr with htr
                  exact absurd htr.symm hne
                | some tj =>
                  rw [htj] at hlen
                  simp only [optLen] at hlen
                  unfold metaNames
                  cases hm : lookupField fs "metadata" with
                  | none =>
                    rw [hm] at hlen
                    simp only [Option.isSome_none, Bool.false_eq_true, if_false]
                    apply accounting_sound ["input", "transfers"] (by decide) (by simp) fs hw
                      (fun x => if x = "input" then ij else tj)
                    · intro x hx
                      simp only [List.mem_cons, List.mem_nil_iff, or_false] at hx
                      rcases hx with rfl | rfl
                      · simpa using hi
                      · simpa using htj
                    · rw [← hlen]; simp [e1, e3]; omega
                  | some mj =>
                    rw [hm] at hlen
                    simp only [Option.isSome_some, if_true]
                    apply accounting_sound ["input", "transfers", "metadata"] (by decide) (by simp) fs hw
                      (fun x => if x = "input" then ij else if x = "transfers" then tj else mj)
                    · intro x hx
                      simp only [List.mem_cons, List.mem_nil_iff, or_false] at hx
                      rcases hx with rfl | rfl | rfl
                      · simpa using hi
                      · simpa using htj
                      · simpa using hm
                    · rw [← hlen]; simp [e1, e3, e4]; omega
            · rw [if_neg hlen] at h; cases h
  | _ => simp at h


/-! ### TransactionBatch -/

/-- two lists of equal length whose elements are related position by position -/
inductive AllPairs {α β : Type} (R : α → β → Prop) : List α → List β → Prop where
  | nil : AllPairs R [] []
  | cons {a b as bs} : R a b → AllPairs R as bs → AllPairs R (a :: as) (b :: bs)

theorem decTxs_forall {P : Params} : ∀ {items : List J} {txs : List Tx}, decTxs P items = some txs →
    AllPairs (fun x t => decTx P x = some t) items txs
  | [], txs, h => by
    simp only [decTxs] at h
    injection h with h; subst h; exact AllPairs.nil
  | x :: xs, txs, h => by
    simp only [decTxs] at h
    cases hx : decTx P x with
    | none => rw [hx] at h; simp at h
    | some t =>
      cases hxs : decTxs P xs with
      | none => rw [hx, hxs] at h; simp at h
      | some ts =>
        rw [hx, hxs] at h
        simp only at h
        injection h with h; subst h
        exact AllPairs.cons hx (decTxs_forall hxs)

theorem decTuples_forall {P : Params} : ∀ {items : List J} {trs : List Transfer}, decTuples P items = some trs →
    AllPairs (fun x t => decTuple P x = some t) items trs
  | [], trs, h => by
    simp only [decTuples] at h
    injection h with h; subst h; exact AllPairs.nil
  | x :: xs, trs, h => by
    simp only [decTuples] at h
    cases hx : decTuple P x with
    | none => rw [hx] at h; simp at h
    | some t =>
      cases hxs : decTuples P xs with
      | none => rw [hx, hxs] at h; simp at h
      | some ts =>
        rw [hx, hxs] at h
        simp only at h
        injection h with h; subst h
        exact AllPairs.cons hx (decTuples_forall hxs)

theorem decBatch_keys {P : Params} {j : J} {v : Nat} {txs : List Tx} (hwf : J.WF j) (h : decBatch P j = some (v, txs)) :
    ∃ fs tj, j = .obj fs ∧ exactKeys ["version", "transactions"] fs ∧ lookupField fs "transactions" = some tj ∧
      ((tj = .null ∧ txs = []) ∨ ∃ items, tj = .arr items ∧ decTxs P items = some txs) := by
  unfold decBatch at h
  cases j with
  | obj fs =>
    have hwff : J.WFFields fs := by simpa [J.WF] using hwf
    have hw : ∀ f ∈ fs, Field.wf f := fun f hf => (wfFields_mem hwff f hf).1
    simp only at h
    cases hv : lookupField fs "version" with
    | none => rw [hv] at h; simp at h
    | some vj =>
      cases ht : lookupField fs "transactions" with
      | none => rw [hv, ht] at h; simp at h
      | some tj =>
        rw [hv, ht] at h
        simp only at h
        cases hdv : decUint vj with
        | none => rw [hdv] at h; cases h
        | some v' =>
          rw [hdv] at h
          simp only at h
          have hkeys : ∀ txs', (if 28 + J.len vj + J.len tj = J.len (.obj fs) then some (v', txs') else none) = some (v, txs) →
              exactKeys ["version", "transactions"] fs ∧ txs' = txs := by
            intro txs' hh
            by_cases hl : 28 + J.len vj + J.len tj = J.len (.obj fs)
            · rw [if_pos hl] at hh
              injection hh with hh
              injection hh with _ hh
              refine ⟨?_, hh⟩
              apply accounting_sound ["version", "transactions"] (by decide) (by simp) fs hw
                (fun x => if x = "version" then vj else tj)
              · intro x hx
                simp only [List.mem_cons, List.mem_nil_iff, or_false] at hx
                rcases hx with rfl | rfl
                · simpa using hv
                · simpa using ht
              · rw [← hl]
                have e1 : "version".length = 7 := by decide
                have e2 : "transactions".length = 12 := by decide
                simp [e1, e2]
                omega
            · rw [if_neg hl] at hh; cases hh
          cases tj with
          | null =>
            simp only at h
            obtain ⟨hk, he⟩ := hkeys [] h
            exact ⟨fs, .null, rfl, hk, ht, Or.inl ⟨rfl, he.symm⟩⟩
          | arr items =>
            simp only at h
            cases hd : decTxs P items with
            | none => rw [hd] at h; cases h
            | some txs' =>
              rw [hd] at h
              simp only at h
              obtain ⟨hk, he⟩ := hkeys txs' h
              exact ⟨fs, .arr items, rfl, hk, ht, Or.inr ⟨items, rfl, by rw [hd, he]⟩⟩
          | tru => simp at h
          | fals => simp at h
          | num _ => simp at h
          | str _ _ _ => simp at h
          | obj _ => simp at h
  | _ => simp at h

/-- what the property calls canonical form, for one transaction object -/
def CanonicalTx (P : Params) (x : J) (t : Tx) : Prop :=
  ∃ tfs ij ifs, x = .obj tfs ∧ lookupField tfs "input" = some ij ∧ ij = .obj ifs ∧
    exactKeys ["address", "amount", "type"] ifs ∧
    exactKeys ("input" :: (if t.isConversion P then "conversion" else "transfers") :: metaNames tfs) tfs

/-- **Accepted ⇒ canonical keys, all the way down.** If `TransactionBatch.UnmarshalJSON` accepts a
    document and every decoded transaction has transfers or is a conversion (what
    `Transaction.Validate` demands), then: the batch object has exactly the keys `version` and
    `transactions`, once each; every transaction object has exactly `input`, exactly one of
    `transfers` / `conversion` (the one its decoded form uses) and at most one `metadata`, and
    nothing else; every input object has exactly `address`, `amount`, `type`. No duplicate key, no
    unknown key, on any level. -/
theorem accepted_is_canonical {P : Params} {j : J} {v : Nat} {txs : List Tx} (hwf : J.WF j)
    (h : decBatch P j = some (v, txs)) (hne : txs ≠ [])
    (hval : ∀ t ∈ txs, t.transfers ≠ [] ∨ t.isConversion P = true) :
    ∃ fs items, j = .obj fs ∧ exactKeys ["version", "transactions"] fs ∧
      lookupField fs "transactions" = some (.arr items) ∧ AllPairs (CanonicalTx P) items txs := by
  obtain ⟨fs, tj, hj, hk, hl, hcase⟩ := decBatch_keys hwf h
  rcases hcase with ⟨_, he⟩ | ⟨items, hti, hd⟩
  · exact absurd he hne
  · subst hti
    refine ⟨fs, items, hj, hk, hl, ?_⟩
    have hwfi : J.WFItems items := by
      have := lookup_wf (by subst hj; simpa [J.WF] using hwf) hl
      simpa [J.WF] using this
    have hf := decTxs_forall hd
    have key : ∀ (items : List J) (txs : List Tx), J.WFItems items →
        (∀ t ∈ txs, t.transfers ≠ [] ∨ t.isConversion P = true) →
        AllPairs (fun x t => decTx P x = some t) items txs → AllPairs (CanonicalTx P) items txs := by
      intro items txs hwfi hval hf
      induction hf with
      | nil => exact AllPairs.nil
      | @cons x t xs ts hx _ ih =>
        simp only [J.WFItems] at hwfi
        refine AllPairs.cons ?_ (ih hwfi.2 (fun t' ht' => hval t' (List.mem_cons_of_mem _ ht')))
        obtain ⟨tfs, ij, hxo, hin, hsome, hkeys⟩ := decTx_keys hwfi.1 hx (hval t List.mem_cons_self)
        cases hdi : decTyped P ij with
        | none => rw [hdi] at hsome; cases hsome
        | some r =>
          have hwfij : J.WF ij := lookup_wf (by subst hxo; simpa [J.WF] using hwfi.1) hin
          obtain ⟨ifs, hio, hik⟩ := decTyped_keys hwfij hdi
          exact ⟨tfs, ij, ifs, hxo, hin, hio, hik, hkeys⟩
    exact key items txs hwfi hval hf

end Pegnet
