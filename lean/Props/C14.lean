import Proofs.Payouts
import Proofs.Staking
import Proofs.Snapshot
import Proofs.Chain
import Pegnet.Generated.Facts
/-
  C14 — Holder staking payouts: snapshot minimum, proportional, capped.
-/
namespace Pegnet.C14
open Pegnet

/-- the request set the staking payout builds: one request per eligible staker, keyed by its
    position in the (sorted) list -/
def stakeReqs (txid : String) (list : List (Addr × Nat)) : List (TxKey × Nat) :=
  list.zipIdx.map fun p => (({ idx := p.2, hash := txid } : TxKey), p.1.2)

theorem stakeReqs_keys_nodup (txid : String) (list : List (Addr × Nat)) :
    ((stakeReqs txid list).map (·.1)).Nodup := by
  unfold stakeReqs
  rw [List.map_map]
  have h1 : (list.zipIdx.map (fun p => p.2)).Nodup := by
    rw [List.zipIdx_map_snd]
    exact List.nodup_range'
  have : (List.map ((fun (x : TxKey × Nat) => x.1) ∘ fun (p : (Addr × Nat) × Nat) => (({ idx := p.2, hash := txid } : TxKey), p.1.2)) list.zipIdx)
       = (list.zipIdx.map (fun p => p.2)).map (fun i => ({ idx := i, hash := txid } : TxKey)) := by
    rw [List.map_map]; rfl
  rw [this]
  exact List.Pairwise.map _ (fun a b hab hk => hab (by injection hk)) h1

theorem stakeReqs_sum (txid : String) (list : List (Addr × Nat)) :
    sumReq (stakeReqs txid list) = (list.map (·.2)).sum := by
  unfold stakeReqs sumReq
  rw [List.map_map]
  have : ((fun (x : TxKey × Nat) => x.2) ∘ fun (p : (Addr × Nat) × Nat) => (({ idx := p.2, hash := txid } : TxKey), p.1.2))
       = (fun p => p.1.2) := rfl
  rw [this]
  have h := List.zipIdx_map_fst (l := list) (i := 0)
  calc (list.zipIdx.map (fun p => p.1.2)).sum = ((list.zipIdx.map (·.1)).map (·.2)).sum := by rw [List.map_map]; rfl
    _ = (list.map (·.2)).sum := by rw [h]

/-- The total paid at a snapshot never exceeds the cap (4,500 PEG × 144 on the main net). -/
theorem payout_cap (cap : Nat) (txid : String) (list : List (Addr × Nat)) (hc : cap ≤ maxUint64) :
    sumReq (payouts cap (stakeReqs txid list)) ≤ cap := by
  by_cases hne : stakeReqs txid list = []
  · rw [hne]; simp [payouts, sumReq]
  · rw [payouts_sum cap _ hc (stakeReqs_keys_nodup txid list) hne]
    split <;> omega

/-- …and equals it to the last unit whenever the total stake reaches it. -/
theorem payout_exact_when_over (cap : Nat) (txid : String) (list : List (Addr × Nat)) (hc : cap ≤ maxUint64)
    (hne : list ≠ []) (hover : cap ≤ (list.map (·.2)).sum) :
    sumReq (payouts cap (stakeReqs txid list)) = cap := by
  have hne' : stakeReqs txid list ≠ [] := by
    unfold stakeReqs
    cases list with
    | nil => exact absurd rfl hne
    | cons x xs => simp [List.zipIdx_cons]
  rw [payouts_sum cap _ hc (stakeReqs_keys_nodup txid list) hne', stakeReqs_sum]
  rw [if_neg (by omega)]

/-- below the cap every staker receives exactly its stake -/
theorem payout_full_when_under (cap : Nat) (txid : String) (list : List (Addr × Nat)) (hc : cap ≤ maxUint64)
    (hunder : (list.map (·.2)).sum < cap) :
    payouts cap (stakeReqs txid list) = stakeReqs txid list :=
  payouts_fit cap _ hc (by rw [stakeReqs_sum]; exact hunder)

/-- above it, before the dust, every staker's share is ⌊stake · cap / total⌋ -/
theorem payout_proportional (cap : Nat) (txid : String) (list : List (Addr × Nat)) (hc : cap ≤ maxUint64) :
    (stakeReqs txid list).map (fun r => (r.1, payoutBig r.2 cap (sumReq (stakeReqs txid list)))) =
    (stakeReqs txid list).map (fun r => (r.1, r.2 * cap / sumReq (stakeReqs txid list))) :=
  pays_eq_shares _ cap (Nat.lt_of_le_of_lt hc maxUint64_lt_W)

/-- PEG does not count towards the stake, and a zero balance at either snapshot contributes
    nothing: the valuation of a row only looks at min(current, past) of the non-PEG assets. -/
theorem stake_uses_minimum (P : Params) (h : Nat) (rates : TMap) (cur past cur' past' : List Int)
    (hmin : ∀ t, t ≠ tPEG → min (getB cur t) (getB past t) = min (getB cur' t) (getB past' t)) :
    stakeOf P h rates cur past = stakeOf P h rates cur' past' := by
  unfold stakeOf
  have hf : (fun (acc : Option Nat) (t : Nat) =>
      match acc with
      | none => none
      | some total =>
        if t == tPEG then some total else
        let b := min (getB cur t) (getB past t)
        if b == 0 then some total else
        if (rates.get t == 0 || rates.get tUSD == 0) && decide (h ≥ P.act.v202) then some total else
        match convert P.act.pip10 h b (rates.get t) (rates.get t) (rates.get tUSD) (rates.get tUSD) with
        | none => none
        | some c => some (total + c.toNat)) =
    (fun (acc : Option Nat) (t : Nat) =>
      match acc with
      | none => none
      | some total =>
        if t == tPEG then some total else
        let b := min (getB cur' t) (getB past' t)
        if b == 0 then some total else
        if (rates.get t == 0 || rates.get tUSD == 0) && decide (h ≥ P.act.v202) then some total else
        match convert P.act.pip10 h b (rates.get t) (rates.get t) (rates.get tUSD) (rates.get tUSD) with
        | none => none
        | some c => some (total + c.toNat)) := by
    funext acc t
    cases acc with
    | none => rfl
    | some total =>
      by_cases ht : (t == tPEG) = true
      · simp [ht]
      · have hne : t ≠ tPEG := by simpa using ht
        simp only [ht, Bool.false_eq_true, if_false, hmin t hne]
  exact congrArg (fun f => List.foldl f (some 0) ((List.range (P.tickerMax - 1)).map (· + 1))) hf

/-- **When the snapshot is taken.** At a snapshot height the first thing the transaction phase of
    the block does is to rotate the snapshots: the new current snapshot is the balance table as
    it stands BEFORE the held conversions, the block's transactions and its rewards touch any
    balance, the previous current snapshot becomes the past one. -/
theorem snapshot_taken_before_block {P : Params} {c : DB} {b : Block} {avgs : TMap} {ra : Bool} {s s' : DB}
    (hr : txPhase P c b avgs ra s = .ok () s') (htx : b.height ≥ P.act.txConv)
    (hdue : b.height ≥ P.act.v20 ∧ b.height % P.snapshotRate = 0) :
    ∃ s1, snapshotPhase P b s = .ok () s1 ∧ s1.snapCur = s.addrs ∧ s1.snapPast = s.snapCur :=
  snapshot_before_block_transactions hr htx hdue

/-- Cadence: off the snapshot heights (before 2.0, or not a multiple of the snapshot rate) the
    step does nothing at all — no rotation, no payout. -/
theorem no_payout_off_cadence (P : Params) (b : Block) (s : DB)
    (h : ¬ (b.height ≥ P.act.v20 ∧ b.height % P.snapshotRate = 0)) : snapshotPhase P b s = .ok () s :=
  snapshotPhase_off_cadence P b s h

/-- **An address absent from either snapshot is not paid**: the stakers are taken from the inner
    join of the two snapshots on the address. -/
theorem absent_not_paid {cur past : List AddrRow} {a : Addr} :
    ((∀ p ∈ past, p.addr ≠ a) → ∀ x ∈ joinSnapshots cur past, x.1 ≠ a) ∧
    ((∀ c ∈ cur, c.addr ≠ a) → ∀ x ∈ joinSnapshots cur past, x.1 ≠ a) :=
  ⟨absent_from_past_not_joined, absent_from_current_not_joined⟩

/-- …and a joined row carries exactly the two balance vectors of that address -/
theorem joined_row_is_both_snapshots {cur past : List AddrRow} {x : Addr × List Int × List Int}
    (hx : x ∈ joinSnapshots cur past) :
    (∃ c ∈ cur, c.addr = x.1 ∧ c.bals = x.2.1) ∧ (∃ p ∈ past, p.addr = x.1 ∧ p.bals = x.2.2) :=
  join_requires_both hx

/-- the regenerated constants: 4,500 PEG per block for holders, snapshots every 144 blocks -/
theorem staking_constants : Generated.perBlockAssetHolders = 450000000000 ∧ Generated.snapshotRate = 144 ∧
    Generated.perBlockAssetHolders * Generated.snapshotRate ≤ maxUint64 := by decide

/-- **The staking payout, for every address and asset.** When the snapshot step of a block
    succeeds: the stakers are the addresses present in BOTH snapshots (inner join of the balance
    table as it stood before the block with the previous snapshot), each valued by `stakeOf` —
    min(current, previous) of every non-PEG asset, in pUSD; the stakers with a positive stake, in
    the deterministic order, are credited in PEG exactly their `Payouts` share of 4,500 PEG × 144
    (`payout_cap`, `payout_exact_when_over`, `payout_full_when_under`, `payout_proportional` say what
    those shares are); no other balance of anybody changes. -/
theorem staking_payout_exact (P : Params) (h : Nat) (ts : Int) (rates : TMap) (order : List Addr) (s s' : DB)
    (hr : snapshotPayouts P h ts rates order s = .ok () s') :
    ∃ staked, stakesOf P h rates (joinSnapshots s.addrs s.snapCur) = some staked ∧
      let list := orderStakes order (staked.filter (fun p => decide (p.2 > 0)))
      let pays := payouts (P.perBlockHolders * P.snapshotRate) (stakeReqs (txidOfHeight h) list)
      ∀ a x, s'.bal a x = s.bal a x + (if x = tPEG then stakingCredit a (list.zip pays) else 0) :=
  snapshotPayouts_exact P h ts rates order s s' hr

/-- an address that is not among the valued stakers receives nothing -/
theorem non_staker_not_credited (a : Addr) (lp : List ((Addr × Nat) × (TxKey × Nat)))
    (hna : ∀ p ∈ lp, p.1.1 ≠ a) : stakingCredit a lp = 0 := by
  unfold stakingCredit
  induction lp with
  | nil => rfl
  | cons p rest ih =>
    have hp : ¬ a = p.1.1 := fun e => hna p List.mem_cons_self e.symm
    simp only [List.map_cons, List.sum_cons, hp, if_false]
    rw [ih (fun q hq => hna q (List.mem_cons_of_mem _ hq))]
    rfl

end Pegnet.C14

namespace Pegnet.C14
open Pegnet
/-- the shipped schedule, regenerated from config/activations.go and fat/fat2/activations.go on every
    run, against the values this property was read with: the heights from which snapshots pay stakers and an unrated snapshot block borrows rates. Every scenario of the harness
    runs on a compressed schedule that overwrites these constants, so nothing else would notice one of
    them moving; a moved height is a different protocol, not a rewrite. -/
theorem shipped_schedule :
    let a := Generated.activations
    Generated.activationsComplete = true ∧ a.v20 = 258796 ∧ a.v202 = 274036 := by
  decide
end Pegnet.C14

#print axioms Pegnet.C14.stakeReqs_keys_nodup
#print axioms Pegnet.C14.payout_cap
#print axioms Pegnet.C14.payout_exact_when_over
#print axioms Pegnet.C14.payout_full_when_under
#print axioms Pegnet.C14.payout_proportional
#print axioms Pegnet.C14.stake_uses_minimum
#print axioms Pegnet.C14.staking_constants
#print axioms Pegnet.C14.snapshot_taken_before_block
#print axioms Pegnet.C14.no_payout_off_cadence
#print axioms Pegnet.C14.absent_not_paid
#print axioms Pegnet.C14.joined_row_is_both_snapshots
#print axioms Pegnet.C14.staking_payout_exact
#print axioms Pegnet.C14.non_staker_not_credited
#print axioms Pegnet.C14.shipped_schedule
