import Proofs.Chain
/-
  The balance-table invariant: one row per address, no negative balance.
-/
namespace Pegnet

theorem getB_nil (i : Nat) : getB [] i = 0 := by simp [getB]

theorem getB_setB (l : List Int) (i j : Nat) (v : Int) :
    getB (setB l i v) j = if i = j then v else getB l j := by
  induction l generalizing i j with
  | nil =>
    induction i generalizing j with
    | zero =>
      cases j with
      | zero => simp [setB, getB]
      | succ j => simp [setB, getB]
    | succ i ih =>
      cases j with
      | zero => simp [setB, getB]
      | succ j =>
        have := ih j
        simp only [setB, getB, List.getD_cons_succ] at this ⊢
        rw [this]
        by_cases h : i = j
        · simp [h]
        · simp [h]
  | cons x xs ih =>
    cases i with
    | zero =>
      cases j with
      | zero => simp [setB, getB]
      | succ j => simp [setB, getB]
    | succ i =>
      cases j with
      | zero => simp [setB, getB]
      | succ j =>
        have := ih i j
        simp only [setB, getB, List.getD_cons_succ] at this ⊢
        rw [this]
        by_cases h : i = j
        · simp [h]
        · simp [h]

/-- one row per address, and no negative balance anywhere -/
def AddrsOK (db : DB) : Prop :=
  (db.addrs.map (·.addr)).Nodup ∧ ∀ r ∈ db.addrs, ∀ t, 0 ≤ getB r.bals t

theorem findRow_none_not_mem {rows : List AddrRow} {a : Addr} (h : findRow rows a = none) :
    a ∉ rows.map (·.addr) := by
  intro hm
  obtain ⟨r, hr, hra⟩ := List.mem_map.1 hm
  have := List.find?_eq_none.1 h r hr
  simp [hra] at this

theorem findRow_unique {rows : List AddrRow} {a : Addr} {r : AddrRow}
    (hn : (rows.map (·.addr)).Nodup) (hr : r ∈ rows) (ha : r.addr = a) : findRow rows a = some r := by
  induction rows with
  | nil => cases hr
  | cons x xs ih =>
    simp only [List.map_cons, List.nodup_cons] at hn
    unfold findRow
    rw [List.find?_cons]
    rcases List.mem_cons.1 hr with e | e
    · subst e; simp [ha]
    · have hx : x.addr ≠ a := by
        intro hxa
        apply hn.1
        rw [hxa, ← ha]
        exact List.mem_map_of_mem e
      have : (x.addr == a) = false := by simp [hx]
      rw [this]
      exact ih hn.2 e

theorem updRow_addrs (rows : List AddrRow) (a : Addr) (t : Ticker) (f : Int → Int) :
    (updRow rows a t f).map (·.addr) = rows.map (·.addr) := by
  unfold updRow
  rw [List.map_map]
  apply List.map_congr_left
  intro r _
  simp only [Function.comp]
  split <;> rfl

theorem addrsOK_upsertAdd (db : DB) (a : Addr) (t : Ticker) (v : Nat) (h : AddrsOK db) :
    AddrsOK { db with addrs := upsertAdd db.addrs a t v } := by
  obtain ⟨hn, hp⟩ := h
  unfold upsertAdd
  cases hf : findRow db.addrs a with
  | some r0 =>
    simp only
    refine ⟨by rw [updRow_addrs]; exact hn, ?_⟩
    intro r hr t'
    unfold updRow at hr
    obtain ⟨q, hq, hqr⟩ := List.mem_map.1 hr
    have hq0 := hp q hq
    split at hqr
    · subst hqr
      simp only [getB_setB]
      split
      · have := hq0 t; omega
      · exact hq0 t'
    · subst hqr; exact hq0 t'
  | none =>
    simp only
    refine ⟨?_, ?_⟩
    · rw [List.map_append, List.map_cons, List.map_nil]
      have hnot := findRow_none_not_mem hf
      rw [List.nodup_append]
      refine ⟨hn, by simp, ?_⟩
      intro x hx y hy
      simp at hy
      subst hy
      intro e; subst e; exact hnot hx
    · intro r hr t'
      rcases List.mem_append.1 hr with hr | hr
      · exact hp r hr t'
      · simp at hr
        subst hr
        simp only [getB_setB, getB_nil]
        split <;> omega

theorem addBal_addrsOK (P : Params) (a : Addr) (t : Ticker) (v : Nat) :
    Step (invRel AddrsOK) (addBal P a t v) :=
  Step.guarded (fun s h => addrsOK_upsertAdd s a t v h)

theorem addrsOK_debit (db : DB) (a : Addr) (t : Ticker) (v : Nat) (h : AddrsOK db)
    (hb : ¬ db.bal a t < (v : Int)) :
    AddrsOK { db with addrs := updRow db.addrs a t (· - v) } := by
  obtain ⟨hn, hp⟩ := h
  refine ⟨by rw [updRow_addrs]; exact hn, ?_⟩
  intro r hr t'
  unfold updRow at hr
  obtain ⟨q, hq, hqr⟩ := List.mem_map.1 hr
  have hq0 := hp q hq
  split at hqr
  · rename_i hqa
    subst hqr
    simp only [getB_setB]
    split
    · -- the debited cell: its old value is `db.bal a t`
      have hfind := findRow_unique hn hq (by simpa using hqa)
      have : db.bal a t = getB q.bals t := by unfold DB.bal; rw [hfind]
      omega
    · exact hq0 t'
  · subst hqr; exact hq0 t'

theorem debit_run (a : Addr) (t : Ticker) (v : Nat) (s : DB) :
    (debit a t v s).state = s ∨ (debit a t v s) = .ok () { s with addrs := updRow s.addrs a t (· - v) } := by
  unfold debit M.guarded
  by_cases hv : v > maxInt64
  · left; simp [hv, Res.state]
  · right; simp [hv]

theorem subBal_addrsOK (P : Params) (a : Addr) (t : Ticker) (v : Nat) :
    Step (invRel AddrsOK) (subBal P a t v) := by
  constructor
  intro s hs
  unfold subBal
  by_cases hv : v = 0
  · rw [if_pos hv]
    exact (Step.bind (addBal_addrsOK P a t 0) (fun _ => Step.pure true)).run s hs
  · rw [if_neg hv]
    by_cases hvt : (!validTicker P t) = true
    · rw [if_pos hvt]; exact hs
    · rw [if_neg hvt, M.bind_run]
      simp only [M.get_run]
      by_cases hb : s.bal a t < (v : Int)
      · rw [if_pos hb]; exact hs
      · rw [if_neg hb, M.bind_run]
        rcases debit_run a t v s with h | h
        · cases hd : debit a t v s with
          | ok x s' => rw [hd] at h; simp only [Res.state] at h; subst h; simp only [M.pure_run, Res.state]; exact hs
          | fail e s' => rw [hd] at h; simp only [Res.state] at h; subst h; simp only [Res.state]; exact hs
        · rw [h]
          simp only [M.pure_run, Res.state]
          exact addrsOK_debit s a t v hs hb

theorem primsOK_addrsOK (P : Params) (h : Nat) : PrimsOK P h (invRel AddrsOK) :=
  primsOK_of_addrs P h (invRel AddrsOK)
    (fun s s' e hs => by unfold AddrsOK at *; rw [e]; exact hs)
    (addBal_addrsOK P) (subBal_addrsOK P)

/-- No balance is ever negative: for every chain of blocks, every address and every asset. -/
theorem runBlocks_addrsOK (P : Params) (n : Node) (chain : List Block) (h : AddrsOK n.db) :
    AddrsOK (runBlocks P n chain).db :=
  runBlocks_rel (P := P) (invRel AddrsOK) ⟨fun _ _ h => h⟩ (fun b => primsOK_addrsOK P b.height)
    (fun _ => Step.guarded (fun _ h => h)) n chain h

theorem bal_nonneg_of_addrsOK {db : DB} (h : AddrsOK db) (a : Addr) (t : Ticker) : 0 ≤ db.bal a t := by
  unfold DB.bal
  cases hf : findRow db.addrs a with
  | none => simp
  | some r =>
    simp only
    exact h.2 r (List.mem_of_find?_eq_some hf) t

end Pegnet
