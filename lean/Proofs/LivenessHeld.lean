import Proofs.Liveness
/-
  C08: executing a held batch — transfers, ordinary conversions, PEG requests — never fails the block.
-/
namespace Pegnet

theorem convert_le {pip10 h : Nat} {amt : Int} {fr fa tr ta : Nat} {x : Int}
    (hc : convert pip10 h amt fr fa tr ta = some x) : x ≤ (maxInt64 : Int) := by
  unfold convert at hc
  by_cases h1 : amt < 0
  · rw [if_pos h1] at hc; cases hc
  · rw [if_neg h1] at hc
    by_cases h2 : fr = 0 ∨ tr = 0
    · rw [if_pos h2] at hc; cases hc
    · rw [if_neg h2] at hc
      by_cases h3 : h ≥ pip10 ∧ (fa = 0 ∨ ta = 0)
      · rw [if_pos h3] at hc; cases hc
      · rw [if_neg h3] at hc
        dsimp only at hc
        generalize amt * ((if h ≥ pip10 ∧ fr > fa then fa else fr : Nat) : Int) / ((if h ≥ pip10 ∧ tr < ta then ta else tr : Nat) : Int) = num at hc
        by_cases h4 : num ≤ (maxInt64 : Int)
        · rw [if_pos h4] at hc; injection hc with hc; subst hc; exact h4
        · rw [if_neg h4] at hc; cases hc

/-- the conversion of `t` at the rates and averages the batch is executed with -/
def convOf (P : Params) (h : Nat) (rates avgs : Option TMap) (t : Tx) : Option Int :=
  convert P.act.pip10 h (toInt64 t.inAmount) ((rates.getD []).get t.inType) ((avgs.getD []).get t.inType)
    ((rates.getD []).get t.conversion) ((avgs.getD []).get t.conversion)

/-- what the decoder and `Validate` guarantee of any transaction -/
structure PlainTx (P : Params) (t : Tx) : Prop where
  ticker : validTicker P t.inType = true
  input : t.inAmount ≤ maxInt64
  outputs : ∀ tr ∈ t.transfers, tr.amount ≤ maxInt64
  pegIsConv : t.isPEGRequest = true → t.isConversion P = true

/-- the output side of a recorded transaction never fails once its conversion is computable -/
theorem recordOutputs_safe (P : Params) (h : Nat) (hash : Hash) (rates avgs : Option TMap) (idx : Nat) (t : Tx)
    (hpl : PlainTx P t) (hcv : t.isConversion P = true → ∃ out, convOf P h rates avgs t = some out) :
    Safe (recordOutputs P h hash rates avgs idx t) := by
  unfold recordOutputs
  by_cases hpeg : h ≥ P.act.convLimit ∧ t.isPEGRequest = true
  · rw [if_pos hpeg]
    obtain ⟨out, hout⟩ := hcv (hpl.pegIsConv hpeg.2)
    unfold convOf at hout
    rw [hout]
    exact Safe.pure ()
  · rw [if_neg hpeg]
    by_cases hc : t.isConversion P = true
    · rw [if_pos hc]
      obtain ⟨out, hout⟩ := hcv hc
      have hle := convert_le hout
      have hnn := convert_nonneg hout
      unfold convOf at hout
      rw [hout]
      have hvt : validTicker P t.conversion = true := by
        unfold Tx.isConversion at hc
        unfold validTicker
        simp only [Bool.and_eq_true, decide_eq_true_eq] at hc ⊢
        exact ⟨hc.1.2, hc.2⟩
      exact Safe.bind (Safe.guarded (fun _ => rfl)) (fun _ => addBal_safe P _ _ _ hvt (by
        have : ((out.toNat : Nat) : Int) = out := Int.toNat_of_nonneg hnn
        omega))
    · have hcf : t.isConversion P = false := by simpa using hc
      rw [if_neg hc]
      apply Safe.forEach
      intro tr htr
      split
      · exact Safe.pure ()
      · exact Safe.bind (addBal_safe P tr.addr t.inType tr.amount hpl.ticker (hpl.outputs tr htr)) (fun _ => Safe.guarded (fun _ => rfl))

/-- recording any plain transaction whose conversion is computable can only fail for lack of funds -/
theorem recordTx_fail_short (P : Params) (h : Nat) (hash : Hash) (rates avgs : Option TMap) (idx : Nat) (t : Tx)
    (hpl : PlainTx P t) (hcv : t.isConversion P = true → ∃ out, convOf P h rates avgs t = some out)
    (s s' : DB) (e : Failure) (hr : recordTx P h hash rates avgs idx t s = .fail e s') :
    e = .uncaught "insufficient balance" := by
  unfold recordTx at hr
  rw [M.bind_run] at hr
  obtain ⟨ok, s1, h1⟩ := subBal_safe P t.inAddr t.inType t.inAmount hpl.ticker hpl.input s
  rw [h1] at hr
  cases ok with
  | false =>
    simp only [Bool.not_false, if_true, M.throw_run] at hr
    injection hr with he _
    exact he.symm
  | true =>
    simp only [Bool.not_true, Bool.false_eq_true, if_false] at hr
    have hs : Safe (do
        insertRelation hash t.inAddr idx false (t.isConversion P)
        setExecuted hash h
        recordOutputs P h hash rates avgs idx t) :=
      Safe.bind (Safe.guarded (fun _ => rfl)) (fun _ => Safe.bind (Safe.guarded (fun _ => rfl))
        (fun _ => recordOutputs_safe P h hash rates avgs idx t hpl hcv))
    obtain ⟨_, s2, h2⟩ := hs s1
    rw [h2] at hr
    cases hr

theorem recordLoop_fail_short (P : Params) (h : Nat) (hash : Hash) (rates avgs : Option TMap) :
    ∀ (l : List (Tx × Nat)), (∀ p ∈ l, PlainTx P p.1) →
      (∀ p ∈ l, p.1.isConversion P = true → ∃ out, convOf P h rates avgs p.1 = some out) →
      ∀ (s s' : DB) (e : Failure),
      M.forEach l (fun p => recordTx P h hash rates avgs p.2 p.1) s = .fail e s' →
      e = .uncaught "insufficient balance"
  | [], _, _, s, s', e, hr => by simp only [M.forEach, M.pure_run'] at hr; cases hr
  | p :: rest, hp, hc, s, s', e, hr => by
    simp only [M.forEach] at hr
    have hr' : (recordTx P h hash rates avgs p.2 p.1 >>= fun _ => M.forEach rest (fun p => recordTx P h hash rates avgs p.2 p.1)) s = .fail e s' := hr
    rw [M.bind_run] at hr'
    cases h1 : recordTx P h hash rates avgs p.2 p.1 s with
    | fail e1 s1 =>
      rw [h1] at hr'
      injection hr' with he _
      subst he
      exact recordTx_fail_short P h hash rates avgs p.2 p.1 (hp p List.mem_cons_self) (hc p List.mem_cons_self) s s1 e1 h1
    | ok u s1 =>
      rw [h1] at hr'
      exact recordLoop_fail_short P h hash rates avgs rest (fun q hq => hp q (List.mem_cons_of_mem _ hq))
        (fun q hq => hc q (List.mem_cons_of_mem _ hq)) s1 s' e hr'

/-- the cumulative pass accepted ⇒ every conversion of the batch is computable -/
theorem pass2_none_conv (P : Params) (h : Nat) (rates avgs : Option TMap) :
    ∀ (txs : List Tx) (bal : Ticker → Int), pass2 P h rates avgs bal txs = none →
      ∀ t ∈ txs, t.isConversion P = true → ∃ out, convOf P h rates avgs t = some out
  | [], _, _, t, ht, _ => by cases ht
  | t0 :: rest, bal, hp, t, ht, hc => by
    obtain ⟨_, c, hcr, hrest⟩ := pass2_cons_none hp
    rcases List.mem_cons.1 ht with rfl | ht
    · unfold creditOf at hcr
      rw [if_pos hc] at hcr
      unfold convOf
      cases hcv : convert P.act.pip10 h (toInt64 t.inAmount) ((rates.getD []).get t.inType) ((avgs.getD []).get t.inType)
          ((rates.getD []).get t.conversion) ((avgs.getD []).get t.conversion) with
      | none => rw [hcv] at hcr; cases hcr
      | some out => exact ⟨out, rfl⟩
    · exact pass2_none_conv P h rates avgs rest _ hrest t ht hc

/-- **A batch that passed the funds checks is recorded**, whatever kinds of transaction it holds -/
theorem recordBatch_succeeds (P : Params) (h : Nat) (hash : Hash) (rates avgs : Option TMap) (a : Addr)
    (hb : a ≠ burnAddrAt P h) (txs : List Tx) (s : DB) (hall : ∀ t ∈ txs, t.inAddr = a)
    (hplain : ∀ t ∈ txs, PlainTx P t)
    (hp : pass2 P h rates avgs (s.balances a) txs = none) :
    ∃ s', recordBatch P h hash rates avgs txs s = .ok () s' := by
  cases hr : recordBatch P h hash rates avgs txs s with
  | ok u s' => exact ⟨s', rfl⟩
  | fail e s' =>
    have hne := recordBatch_never_short P h hash rates avgs a hb txs s hall hp e s' hr
    unfold recordBatch M.forEachIdx at hr
    have := recordLoop_fail_short P h hash rates avgs txs.zipIdx
      (fun p hpm => hplain p.1 (mem_zipIdx_fst hpm))
      (fun p hpm => pass2_none_conv P h rates avgs txs _ hp p.1 (mem_zipIdx_fst hpm)) s s' e hr
    exact absurd this hne


/-! ### the verdict never fails the block when rates exist -/

def Verdict.harmless : Verdict → Prop
  | .apply => True
  | .reject _ => True
  | .dropped => True
  | .failBlock _ => False

theorem pass1Tx_rates (P : Params) (h : Nat) (bal : Ticker → Int) (r : TMap) (hr : r.isEmpty = false) (avgs : Option TMap) (t : Tx) :
    (pass1Tx P h bal (some r) avgs t = none ∧ (t.isConversion P = true → ∃ out, convOf P h (some r) avgs t = some out)) ∨
    (∃ v, pass1Tx P h bal (some r) avgs t = some v ∧ v.harmless) := by
  unfold pass1Tx
  by_cases h1 : (t.inAmount : Int) > bal t.inType
  · right; exact ⟨.reject (-1), by rw [if_pos h1], trivial⟩
  · rw [if_neg h1]
    by_cases hc : t.isConversion P = true
    · rw [if_pos hc]
      simp only [hr, Bool.false_eq_true, if_false]
      by_cases h2 : r.get t.inType = 0 ∨ r.get t.conversion = 0
      · right; exact ⟨.reject (-4), by rw [if_pos h2], trivial⟩
      · rw [if_neg h2]
        by_cases h3 : h ≥ P.act.oneWayFCT ∧ t.conversion = tFCT
        · right; exact ⟨.reject (-3), by rw [if_pos h3], trivial⟩
        · rw [if_neg h3]
          by_cases h4 : h ≥ P.act.oneWaySmall ∧ P.oneWaySet.contains t.conversion = true
          · right; exact ⟨.reject (-5), by rw [if_pos h4], trivial⟩
          · rw [if_neg h4]
            cases hcv : convert P.act.pip10 h (toInt64 t.inAmount) (r.get t.inType) ((avgs.getD []).get t.inType)
                (r.get t.conversion) ((avgs.getD []).get t.conversion) with
            | none => right; exact ⟨.dropped, rfl, trivial⟩
            | some out => left; exact ⟨rfl, fun _ => ⟨out, by unfold convOf; simpa using hcv⟩⟩
    · left
      rw [if_neg hc]
      exact ⟨rfl, fun h => absurd h hc⟩

theorem pass1_rates (P : Params) (h : Nat) (bal : Ticker → Int) (r : TMap) (hr : r.isEmpty = false) (avgs : Option TMap) :
    ∀ (txs : List Tx),
      (pass1 P h bal (some r) avgs txs = none ∧ ∀ t ∈ txs, t.isConversion P = true → ∃ out, convOf P h (some r) avgs t = some out) ∨
      (∃ v, pass1 P h bal (some r) avgs txs = some v ∧ v.harmless)
  | [] => Or.inl ⟨rfl, fun _ h => by cases h⟩
  | t :: rest => by
    unfold pass1
    rcases pass1Tx_rates P h bal r hr avgs t with ⟨h1, hc1⟩ | ⟨v, hv, hh⟩
    · rw [h1]
      rcases pass1_rates P h bal r hr avgs rest with ⟨h2, hc2⟩ | ⟨v, hv, hh⟩
      · left
        refine ⟨h2, fun q hq hqc => ?_⟩
        rcases List.mem_cons.1 hq with rfl | hq
        · exact hc1 hqc
        · exact hc2 q hq hqc
      · right; exact ⟨v, hv, hh⟩
    · right; rw [hv]; exact ⟨v, rfl, hh⟩

theorem pass2_computable (P : Params) (h : Nat) (rates avgs : Option TMap) :
    ∀ (txs : List Tx) (bal : Ticker → Int),
      (∀ t ∈ txs, t.isConversion P = true → ∃ out, convOf P h rates avgs t = some out) →
      pass2 P h rates avgs bal txs = none ∨ pass2 P h rates avgs bal txs = some (.reject (-1))
  | [], _, _ => Or.inl rfl
  | t :: rest, bal, hc => by
    unfold pass2
    by_cases hf : bal t.inType < (t.inAmount : Int)
    · right; rw [if_pos hf]
    · rw [if_neg hf]
      by_cases hcv : t.isConversion P = true
      · rw [if_pos hcv]
        obtain ⟨out, hout⟩ := hc t List.mem_cons_self hcv
        unfold convOf at hout
        dsimp only
        rw [hout]
        exact pass2_computable P h rates avgs rest _ (fun q hq => hc q (List.mem_cons_of_mem _ hq))
      · rw [if_neg hcv]
        exact pass2_computable P h rates avgs rest _ (fun q hq => hc q (List.mem_cons_of_mem _ hq))

/-- with rates at hand the verdict is never a block-failing error; and `apply` means the cumulative
    pass accepted -/
theorem verdict_harmless (P : Params) (db : DB) (h : Nat) (r : TMap) (hr : r.isEmpty = false) (avgs : Option TMap) (txs : List Tx) :
    (verdict P db h (some r) avgs txs).harmless := by
  unfold verdict
  cases txs with
  | nil => trivial
  | cons t0 rest =>
    simp only
    rcases pass1_rates P h (db.balances t0.inAddr) r hr avgs (t0 :: rest) with ⟨h1, hc⟩ | ⟨v, hv, hh⟩
    · rw [h1]
      simp only
      rcases pass2_computable P h (some r) avgs (t0 :: rest) (db.balances t0.inAddr) hc with h2 | h2
      · rw [h2]; trivial
      · rw [h2]; trivial
    · rw [hv]; exact hh

/-- **`applyTransactionBatch` never fails when rates exist**: it applies the batch, rejects it with
    one of the tolerated codes, or drops it -/
theorem applyBatch_total (P : Params) (h : Nat) (e : TxEntry) (r : TMap) (hr : r.isEmpty = false) (avgs : Option TMap) (s : DB)
    (a : Addr) (hb : a ≠ burnAddrAt P h) (hall : ∀ t ∈ e.txs, t.inAddr = a) (hplain : ∀ t ∈ e.txs, PlainTx P t) :
    ∃ v s', applyBatch P h e (some r) avgs s = .ok v s' := by
  unfold applyBatch
  rw [M.bind_run]
  simp only [M.get_run]
  have hh := verdict_harmless P s h r hr avgs e.txs
  cases hv : verdict P s h (some r) avgs e.txs with
  | apply =>
    simp only [M.bind_run, logExec, M.guarded]
    cases htx : e.txs with
    | nil => exact ⟨.apply, { s with execLog := s.execLog ++ [e.hash] }, rfl⟩
    | cons t0 rest =>
      rw [htx] at hv hall hplain
      have hp2 := verdict_apply_pass2 hv
      have ha0 : t0.inAddr = a := hall t0 List.mem_cons_self
      rw [ha0] at hp2
      obtain ⟨s', hs'⟩ := recordBatch_succeeds P h e.hash (some r) avgs a hb (t0 :: rest)
        { s with execLog := s.execLog ++ [e.hash] } hall hplain hp2
      exact ⟨.apply, s', by rw [hs']; rfl⟩
  | reject c => exact ⟨.reject c, s, rfl⟩
  | dropped => exact ⟨.dropped, s, rfl⟩
  | failBlock f => rw [hv] at hh; exact hh.elim

/-- **Executing a held batch never fails the block** — whatever it holds (transfers, conversions,
    PEG requests), funded or not, still valid or not: it is applied, rejected with a status, dropped,
    or skipped as a replay. -/
theorem applyHeld_total (P : Params) (h : Nat) (rates avgs : TMap) (hr : rates.isEmpty = false) (e : TxEntry) (s : DB)
    (a : Addr) (hb : a ≠ burnAddrAt P h) (hall : ∀ t ∈ e.txs, t.inAddr = a) (hplain : ∀ t ∈ e.txs, PlainTx P t) :
    ∃ j s', applyHeld P h rates avgs e s = .ok j s' := by
  unfold applyHeld
  rw [M.bind_run]
  simp only [M.get_run]
  split
  · exact ⟨false, _, rfl⟩
  · split
    · exact ⟨false, s, rfl⟩
    · obtain ⟨v, s1, h1⟩ := applyBatch_total P h e rates hr (some avgs) s a hb hall hplain
      rw [M.bind_run, h1]
      cases v with
      | reject c => exact ⟨false, _, rfl⟩
      | apply => exact ⟨_, s1, rfl⟩
      | dropped => exact ⟨_, s1, rfl⟩
      | failBlock f => exact ⟨_, s1, rfl⟩

end Pegnet
