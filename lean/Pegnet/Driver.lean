import Pegnet.Sync
import Pegnet.Codec
import Pegnet.Json
import Pegnet.JsonEnc
import Pegnet.VersionLock
/-
  Line protocol driver: one command per line on stdin, one answer line on stdout (a dump is a
  block of lines terminated by "."). Run with `lake env lean --run Pegnet/Driver.lean` or as the
  compiled `driver` executable.
-/
namespace Pegnet.Driver
open Pegnet

abbrev Parser := StateT (List String) Option

def tok : Parser String := do
  let s ← get
  match s with
  | [] => failure
  | t :: rest => set rest; pure t

def nat : Parser Nat := do
  let t ← tok
  match t.toNat? with
  | some n => pure n
  | none => failure

def int : Parser Int := do
  let t ← tok
  match t.toInt? with
  | some n => pure n
  | none => failure

def hexDigit (c : Char) : Nat :=
  if c.isDigit then c.toNat - '0'.toNat
  else if 'a' ≤ c ∧ c ≤ 'f' then c.toNat - 'a'.toNat + 10
  else if 'A' ≤ c ∧ c ≤ 'F' then c.toNat - 'A'.toNat + 10 else 0

/-- decode a hex-encoded UTF-8/ASCII string ("-" = empty) -/
def unhex (s : String) : String :=
  if s == "-" then "" else
  let rec go : List Char → List Char
    | a :: b :: rest => Char.ofNat (hexDigit a * 16 + hexDigit b) :: go rest
    | _ => []
  String.ofList (go s.toList)

def hexOfNat (n : Nat) : Char := if n < 10 then Char.ofNat (n + 48) else Char.ofNat (n + 87)

def tohex (s : String) : String :=
  if s.isEmpty then "-" else
  String.ofList (s.toUTF8.toList.flatMap fun b => [hexOfNat (b.toNat / 16), hexOfNat (b.toNat % 16)])

def hexstr : Parser String := do pure (unhex (← tok))

def optAddr : Parser (Option Addr) := do
  let t ← tok
  pure (if t == "-" then none else some t)

def many {α} (n : Nat) (p : Parser α) : Parser (List α) :=
  match n with
  | 0 => pure []
  | k + 1 => do let x ← p; let xs ← many k p; pure (x :: xs)

def counted {α} (p : Parser α) : Parser (List α) := do let n ← nat; many n p

def oprW : Parser OprW := do
  let eh ← tok; let payout ← int; let pos ← nat; let mid ← hexstr; let as ← hexstr; let a ← optAddr
  pure { entryhash := eh, payout := payout, position := pos, minerid := mid, addrStr := as, addr := a }

def asset : Parser (String × Nat) := do let n ← hexstr; let v ← nat; pure (n, v)

def oprAnswer : Parser (OprAnswer × String) := do
  let k ← tok
  match k with
  | "absent" => pure (.absent, "")
  | "err" => do let w ← hexstr; pure (.err w, "")
  | "graded" => do
    let sh ← hexstr; let ver ← nat; let cutoff ← nat; let count ← nat
    let graded ← counted oprW
    let winners ← counted oprW
    let assets ← counted asset
    let keymr ← tok
    pure (.graded { shorthashes := sh, version := ver, cutoff := cutoff, count := count, graded := graded, winners := winners, assets := assets }, keymr)
  | _ => failure

def sprW : Parser SprW := do
  let eh ← tok; let payout ← int; let as ← hexstr; let a ← optAddr
  pure { entryhash := eh, payout := payout, addrStr := as, addr := a }

def sprAnswer : Parser SprAnswer := do
  let k ← tok
  match k with
  | "absent" => pure .absent
  | "err" => do let w ← hexstr; pure (.err w)
  | "panic" => do let w ← hexstr; pure (.panic w)
  | "graded" => do
    let winners ← counted sprW
    let assets ← counted asset
    pure (.graded { winners := winners, assets := assets })
  | _ => failure

def transfer : Parser Transfer := do let a ← tok; let v ← nat; pure { addr := a, amount := v }

def txP : Parser Tx := do
  let a ← tok; let t ← nat; let amt ← nat; let conv ← nat
  let trs ← counted transfer
  pure { inAddr := a, inType := t, inAmount := amt, transfers := trs, conversion := conv }

def txEntry : Parser TxEntry := do
  let h ← tok; let ts ← int; let v1 ← nat; let ve ← nat
  let k ← tok
  if k == "-" then pure { hash := h, ts := ts, parsed := none, validRCD1 := v1 == 1, validRCDe := ve == 1 }
  else match k.toNat? with
    | none => failure
    | some ver => do
      let txs ← counted txP
      pure { hash := h, ts := ts, parsed := some (ver, txs), validRCD1 := v1 == 1, validRCDe := ve == 1 }

def addrAmt : Parser (Addr × Nat) := do let a ← tok; let v ← nat; pure (a, v)

def fctTx : Parser FctTx := do
  let id ← tok; let ts ← int
  let ins ← counted addrAmt
  let nout ← nat
  let ecs ← counted addrAmt
  pure { txid := id, ts := ts, fctInputs := ins, nFctOutputs := nout, ecOutputs := ecs }

/-! ### params -/

def kv (toks : List String) : List (String × String) :=
  toks.filterMap fun t =>
    match t.splitOn "=" with
    | [k, v] => some (k, v)
    | _ => none

def look (m : List (String × String)) (k : String) : String := ((m.find? (·.1 == k)).map (·.2)).getD ""
def lookN (m : List (String × String)) (k : String) : Nat := (look m k).toNat?.getD 0

def splitList (s : String) : List String := if s.isEmpty || s == "-" then [] else s.splitOn ","

def parseParams (toks : List String) : Params :=
  let m := kv toks
  { act := { pegnet := lookN m "pegnet", gradingV2 := lookN m "gradingV2", txConv := lookN m "txConv",
             pegPricing := lookN m "pegPricing", oneWayFCT := lookN m "oneWayFCT", convLimit := lookN m "convLimit",
             pegFloat := lookN m "pegFloat", rcde := lookN m "rcde", v4 := lookN m "v4", v20 := lookN m "v20",
             devRewards := lookN m "devRewards", sprSig := lookN m "sprSig", oneWaySmall := lookN m "oneWaySmall",
             v202 := lookN m "v202", v204 := lookN m "v204", v204Burn := lookN m "v204Burn", pip10 := lookN m "pip10" },
    tickerMax := lookN m "tickerMax",
    tickerNames := splitList (look m "tickers"),
    oneWaySet := (splitList (look m "oneway")).filterMap (·.toNat?),
    snapshotRate := lookN m "snapshotRate",
    perBlockHolders := lookN m "holders",
    perBlockDevs := lookN m "devsPerBlock",
    bankBase := lookN m "bankBase",
    avgPeriod := lookN m "avgPeriod",
    avgRequired := lookN m "avgRequired",
    syncVersion := ((look m "syncVersion").toInt?).getD 0,
    devs := (splitList (look m "devs")).filterMap (fun s => match s.splitOn ":" with
      | [a, p] => p.toNat?.map (fun n => (a, n))
      | _ => none),
    mint := (splitList (look m "mint")).filterMap (fun s => match s.splitOn ":" with
      | [t, a] => match t.toNat?, a.toNat? with
        | some t, some a => some (t, a)
        | _, _ => none
      | _ => none),
    burnAddr := look m "burn", oldBurnAddr := look m "oldburn", mintAddr := look m "mintaddr",
    coinbaseAddr := look m "coinbase", zeroAddr := look m "zero",
    forks := (splitList (look m "forks")).filterMap (fun s => match s.splitOn ":" with
      | [a, v] => match a.toNat?, v.toInt? with
        | some a, some v => some (a, v)
        | _, _ => none
      | _ => none) }

/-! ### dump -/

def balStr (l : List Int) : String :=
  ",".intercalate ((l.zipIdx.filter (fun p => p.1 != 0 && p.2 != 0)).map fun p => toString p.2 ++ "=" ++ toString p.1)

def b01 (b : Bool) : String := if b then "1" else "0"

def dumpDB (db : DB) : List String :=
  db.addrs.map (fun r => "A|" ++ r.addr ++ "|" ++ balStr r.bals) ++
  db.snapPast.map (fun r => "SP|" ++ r.addr ++ "|" ++ balStr r.bals) ++
  db.snapCur.map (fun r => "SC|" ++ r.addr ++ "|" ++ balStr r.bals) ++
  db.rates.map (fun r => "R|" ++ toString r.height ++ "|" ++ r.token ++ "|" ++ toString r.value) ++
  db.grades.map (fun r => "G|" ++ toString r.height ++ "|" ++ r.keymr ++ "|" ++ tohex r.shorthashes ++ "|" ++ toString r.version ++ "|" ++ toString r.cutoff ++ "|" ++ toString r.count) ++
  db.winners.map (fun r => "W|" ++ toString r.height ++ "|" ++ toString r.position ++ "|" ++ r.entryhash ++ "|" ++ toString r.payout ++ "|" ++ tohex r.minerid ++ "|" ++ tohex r.addrStr) ++
  db.holding.map (fun r => "H|" ++ r.entry.hash ++ "|" ++ toString r.height ++ "|" ++ toString r.entry.ts ++ "|" ++ r.keymr) ++
  db.rels.map (fun r => "X|" ++ r.hash ++ "|" ++ r.addr ++ "|" ++ toString r.txIndex ++ "|" ++ b01 r.to ++ "|" ++ b01 r.conv) ++
  db.histB.map (fun r => "B|" ++ r.hash ++ "|" ++ toString r.height ++ "|" ++ toString r.blockorder ++ "|" ++ toString r.ts ++ "|" ++ toString r.executed) ++
  db.histT.map (fun r => "T|" ++ r.hash ++ "|" ++ toString r.txIndex ++ "|" ++ toString r.action ++ "|" ++ r.fromAddr ++ "|" ++ r.fromAsset ++ "|" ++ toString r.fromAmount ++ "|" ++ r.toAsset ++ "|" ++ toString r.toAmount ++ "|" ++ r.outputs) ++
  db.histL.map (fun r => "L|" ++ r.hash ++ "|" ++ toString r.txIndex ++ "|" ++ r.addr) ++
  db.bank.map (fun r => "K|" ++ toString r.height ++ "|" ++ toString r.amount ++ "|" ++ toString r.used ++ "|" ++ toString r.requested) ++
  ["S|" ++ (match db.synced with | some h => toString h | none => "-")] ++
  db.syncVersions.map (fun r => "V|" ++ toString r.1 ++ "|" ++ toString r.2)

/-- the small tables in full, the append-mostly ones as row counts -/
def dumpLight (db : DB) : List String :=
  db.addrs.map (fun r => "A|" ++ r.addr ++ "|" ++ balStr r.bals) ++
  db.snapPast.map (fun r => "SP|" ++ r.addr ++ "|" ++ balStr r.bals) ++
  db.snapCur.map (fun r => "SC|" ++ r.addr ++ "|" ++ balStr r.bals) ++
  db.holding.map (fun r => "H|" ++ r.entry.hash ++ "|" ++ toString r.height ++ "|" ++ toString r.entry.ts ++ "|" ++ r.keymr) ++
  db.bank.map (fun r => "K|" ++ toString r.height ++ "|" ++ toString r.amount ++ "|" ++ toString r.used ++ "|" ++ toString r.requested) ++
  ["S|" ++ (match db.synced with | some h => toString h | none => "-")] ++
  ["N|R|" ++ toString db.rates.length, "N|G|" ++ toString db.grades.length, "N|W|" ++ toString db.winners.length,
   "N|X|" ++ toString db.rels.length, "N|B|" ++ toString db.histB.length, "N|T|" ++ toString db.histT.length,
   "N|L|" ++ toString db.histL.length, "N|V|" ++ toString db.syncVersions.length,
   "N|Bx|" ++ toString ((db.histB.map (·.executed)).sum), "N|Tx|" ++ toString ((db.histT.map (·.toAmount)).sum)]

/-! ### state machine -/

structure St where
  P : Params := parseParams []
  node : Node := {}
  pending : Block := { height := 0, ts := 0 }
  txLeft : Nat := 0
  fctLeft : Nat := 0

def tmapStr (m : TMap) : String :=
  ",".intercalate (m.map fun p => toString p.1 ++ "=" ++ toString p.2)

/-- decode a hex-encoded UTF-8 string exactly (invalid UTF-8 never reaches the model) -/
def unhexUtf8 (s : String) : String :=
  if s == "-" then "" else
  let rec go : List Char → List UInt8
    | a :: b :: rest => UInt8.ofNat (hexDigit a * 16 + hexDigit b) :: go rest
    | _ => []
  match String.fromUTF8? (ByteArray.mk (go s.toList).toArray) with
  | some t => t
  | none => unhex s

/-- token tree: `n` | `t` | `f` | `# lexhex` | `s lexhex valhex addr|-` | `[ k items…` | `{ k (keylexhex keyhex value)…` -/
partial def jtree : Parser J := do
  let t ← tok
  match t with
  | "n" => pure .null
  | "t" => pure .tru
  | "f" => pure .fals
  | "#" => do let l ← tok; pure (.num (unhexUtf8 l))
  | "s" => do
      let l ← tok; let v ← tok; let a ← tok
      pure (.str (unhexUtf8 l) (unhexUtf8 v) (if a == "-" then none else some a))
  | "[" => do
      let k ← nat
      let rec items : Nat → Parser (List J)
        | 0 => pure []
        | n + 1 => do let x ← jtree; let xs ← items n; pure (x :: xs)
      let xs ← items k
      pure (.arr xs)
  | "{" => do
      let k ← nat
      let rec fields : Nat → Parser (List (String × String × J))
        | 0 => pure []
        | n + 1 => do
          let kl ← tok; let kv ← tok; let v ← jtree
          let fs ← fields n
          pure ((unhexUtf8 kl, unhexUtf8 kv, v) :: fs)
      let fs ← fields k
      pure (.obj fs)
  | _ => failure

def renderTx (t : Tx) : String :=
  t.inAddr ++ "/" ++ toString t.inType ++ "/" ++ toString t.inAmount ++ "/" ++ toString t.conversion ++ "/" ++
    ",".intercalate (t.transfers.map fun tr => tr.addr ++ ":" ++ toString tr.amount)

def step (st : St) (line : String) : St × List String :=
  let toks := (line.trimAscii.toString.splitOn " ").filter (· != "")
  match toks with
  | "params" :: rest =>
    let P := parseParams rest
    ({ st with P := P, node := { mem := P.act.pegnet } }, ["ok"])
  | ["reset"] => ({ st with node := { mem := st.P.act.pegnet } }, ["ok"])
  | ["restart"] => ({ st with node := restart st.P st.node }, ["ok"])
  | ["begin", h, ts] =>
    match h.toNat?, ts.toInt? with
    | some h, some ts => ({ st with pending := { height := h, ts := ts }, txLeft := 0, fctLeft := 0 }, ["ok"])
    | _, _ => (st, ["bad-op"])
  | ["oprq"] =>
    let h := st.pending.height
    let prev := match st.node.db.prevWinners h with | some s => tohex s | none => "-"
    (st, ["oprq " ++ toString (graderVersionOPR st.P h) ++ " " ++ prev])
  | "opr" :: rest =>
    match (oprAnswer.run rest) with
    | some ((a, keymr), []) => ({ st with pending := { st.pending with opr := a, oprKeymr := keymr } }, ["ok"])
    | _ => (st, ["bad-op"])
  | "sprq" :: rest =>
    match (counted optAddr).run rest with
    | some (entries, []) =>
      let ver := graderVersionSPR st.P st.pending.height
      match sprPass st.node.db entries with
      | none => (st, ["sprq " ++ toString ver ++ " panic"])
      | some idx => (st, ["sprq " ++ toString ver ++ " " ++ toString idx.length ++ (String.join (idx.map fun i => " " ++ toString i))])
    | _ => (st, ["bad-op"])
  | "spr" :: rest =>
    match sprAnswer.run rest with
    | some (a, []) => ({ st with pending := { st.pending with spr := a } }, ["ok"])
    | _ => (st, ["bad-op"])
  | ["txs", keymr, n] =>
    match n.toNat? with
    | some n => ({ st with pending := { st.pending with txs := some [], txKeymr := keymr }, txLeft := n }, ["ok"])
    | none => (st, ["bad-op"])
  | "tx" :: rest =>
    match txEntry.run rest with
    | some (e, []) =>
      let cur := st.pending.txs.getD []
      ({ st with pending := { st.pending with txs := some (cur ++ [e]) }, txLeft := st.txLeft - 1 }, ["ok"])
    | _ => (st, ["bad-op"])
  | ["fct", rcd, n] =>
    match n.toNat? with
    | some n => ({ st with pending := { st.pending with burnRCD := rcd, fcts := [] }, fctLeft := n }, ["ok"])
    | none => (st, ["bad-op"])
  | "f" :: rest =>
    match fctTx.run rest with
    | some (f, []) => ({ st with pending := { st.pending with fcts := st.pending.fcts ++ [f] }, fctLeft := st.fctLeft - 1 }, ["ok"])
    | _ => (st, ["bad-op"])
  | "stakeorder" :: rest =>
    ({ st with pending := { st.pending with stakeOrder := rest } }, ["ok"])
  | ["end"] =>
    if st.txLeft != 0 || st.fctLeft != 0 then (st, ["bad-op incomplete"]) else
    let (n', r) := applyBlock st.P st.node st.pending
    match r with
    | none => ({ st with node := n' }, ["ok"])
    | some e => ({ st with node := n' }, ["fail " ++ tohex e.kind])
  | ["dump"] => (st, dumpDB st.node.db ++ ["."])
  | ["dumplight"] => (st, dumpLight st.node.db ++ ["."])
  | ["avg", h] =>
    match h.toNat? with
    | some h =>
      let (c, a) := getAverages st.P st.node.db st.node.cache h
      ({ st with node := { st.node with cache := c } }, ["avg " ++ tmapStr a])
    | none => (st, ["bad-op"])
  | ["reload-avg", h] =>
    match h.toNat? with
    | some h => (st, ["avg " ++ tmapStr (reloadAverages st.P st.node.db h)])
    | none => (st, ["bad-op"])
  | "convert" :: rest =>
    match rest.map (·.toInt?) with
    | [some pip, some h, some amt, some fr, some fa, some tr, some ta] =>
      match convert pip.toNat h.toNat amt fr.toNat fa.toNat tr.toNat ta.toNat with
      | some x => (st, ["ok " ++ toString x])
      | none => (st, ["err"])
    | _ => (st, ["bad-op"])
  | "refund" :: rest =>
    match rest.map (·.toInt?) with
    | [some pip, some h, some amt, some y, some ir, some pr] =>
      (st, ["ok " ++ toString (refund pip.toNat h.toNat amt y ir.toNat pr.toNat)])
    | _ => (st, ["bad-op"])
  | "payouts" :: bank :: rest =>
    -- payouts <bank> <n> {idx hash amount}*
    let p : Parser (List (TxKey × Nat)) := counted (do let i ← nat; let h ← tok; let a ← nat; pure (({ idx := i, hash := h } : TxKey), a))
    match bank.toNat?, p.run rest with
    | some b, some (reqs, []) =>
      let pays := payouts b reqs
      (st, ["ok " ++ toString (totalRequested reqs) ++ (String.join (pays.map fun q => " " ++ toString q.1.idx ++ "-" ++ q.1.hash ++ "=" ++ toString q.2))])
    | _, _ => (st, ["bad-op"])
  | "applybatch" :: rest =>
    -- applybatch <h> <nb> {t bal}* <nr> {t v}* <na> {t v}* <tx-entry tokens…>
    -- one batch applied by `applyBatch` on a ledger holding only the input address' balances
    let tv : Parser (Nat × Nat) := do let t ← nat; let v ← nat; pure (t, v)
    let p : Parser (Nat × List (Nat × Nat) × List (Nat × Nat) × List (Nat × Nat) × Nat × TxEntry) := do
      let h ← nat
      let bals ← counted tv
      let nilRates ← nat
      let rates ← counted tv
      let avgs ← counted tv
      let e ← txEntry
      pure (h, bals, rates, avgs, nilRates, e)
    match p.run rest with
    | some ((h, bals, rates, avgs, nilRates, e), []) =>
      let inAddr := match e.txs with | t :: _ => t.inAddr | [] => ""
      let row : AddrRow := { addr := inAddr, bals := bals.foldl (fun l p => setB l p.1 (p.2 : Int)) [] }
      let db : DB := { addrs := [row] }
      let r := if nilRates == 1 then none else some (rates : TMap)
      let a := if nilRates == 1 then none else some (avgs : TMap)
      match applyBatch st.P h e r a db with
      | .ok v db' =>
        let vs := match v with
          | .apply => "apply" | .reject c => "reject " ++ toString c | .dropped => "dropped" | .failBlock _ => "failblock"
        (st, ["ok " ++ vs ++ " |" ++ String.join (db'.addrs.map fun r => " " ++ r.addr ++ ":" ++ balStr r.bals) ++ " | rels=" ++ toString db'.rels.length])
      | .fail f _ => (st, ["fail " ++ tohex f.kind])
    | _ => (st, ["bad-op"])
  | "validate" :: h :: rest =>
    -- validate <h> <tx-entry tokens…>  → validAt validPegTx hasConversions hasPEGRequest
    match h.toNat?, txEntry.run rest with
    | some h, some (e, []) =>
      (st, ["ok " ++ b01 (e.validAt st.P h) ++ " " ++ b01 (e.validPegTx st.P) ++ " " ++ b01 (e.hasConversions st.P) ++ " " ++ b01 e.hasPEGRequest])
    | _, _ => (st, ["bad-op"])
  | ["inband", o, s, tn, td] =>
    match o.toNat?, s.toNat?, tn.toNat?, td.toNat? with
    | some o, some s, some tn, some td => (st, ["ok " ++ b01 (inBand o s tn td)])
    | _, _, _, _ => (st, ["bad-op"])
  | ["amount", s] => (st, [match factoidToFactoshi (unhex s) with | some n => "ok " ++ toString n | none => "err"])
  | "hardforks" :: rest =>
    -- hardforks <cur> <synced|-> <nf> {act min}* <nr> {height version}*
    let p : Parser (Int × Option Nat × List (Nat × Int) × List (Nat × Int)) := do
      let cur ← int
      let s ← tok
      let forks ← counted (do let a ← nat; let m ← int; pure (a, m))
      let rows ← counted (do let a ← nat; let m ← int; pure (a, m))
      pure (cur, s.toNat?, forks, rows)
    match p.run rest with
    | some ((cur, synced, forks, rows), []) =>
      let (rows', refuse) := checkHardForks forks cur synced rows
      (st, [(if refuse then "refuse" else "accept") ++ (String.join (rows'.map fun r => " " ++ toString r.1 ++ ":" ++ toString r.2))])
    | _ => (st, ["bad-op"])
  | "assetrates" :: rest =>
    -- assetrates <height> <no> {name value}* <ns> {name value}*   (the era decides V0 / later rule)
    let p : Parser (Nat × List (String × Nat) × List (String × Nat)) := do
      let h ← nat
      let o ← counted (do let a ← tok; let v ← nat; pure (a, v))
      let s ← counted (do let a ← tok; let v ← nat; pure (a, v))
      pure (h, o, s)
    match p.run rest with
    | some ((h, o, s), []) =>
      let r := if h < st.P.act.devRewards then assetRatesV0 o s else assetRates st.P h o s
      (st, [match r with
            | none => "err"
            | some l => "ok " ++ toString l.length ++ String.join (l.map fun x => " " ++ x.1 ++ " " ++ toString x.2)])
    | _ => (st, ["bad-op"])
  | "encode" :: rest =>
    -- encode <tx-entry tokens…> → the content `json.Marshal(TransactionBatch)` writes (addresses
    -- written as their 64 hex digits), or refused
    match txEntry.run rest with
    | some (e, []) =>
      (st, [match e.parsed with
            | none => "unparsed"
            | some (v, txs) =>
              match encBatch st.P (fun a => ("\"" ++ a ++ "\"", a)) v txs with
              | none => "refused"
              | some j => "ok " ++ J.text j])
    | _ => (st, ["bad-op"])
  | "json" :: rest =>
    -- json <token tree>  → decoded batch as `TransactionBatch.UnmarshalJSON` leaves it, or reject
    match jtree.run rest with
    | some (j, []) =>
      (st, [match decBatch st.P j with
            | none => "reject len=" ++ toString j.len
            | some (v, txs) => "ok len=" ++ toString j.len ++ " v=" ++ toString v ++ String.join (txs.map fun t => " " ++ renderTx t)])
    | _ => (st, ["bad-op"])
  | _ => (st, ["bad-op"])

partial def loop (h : IO.FS.Stream) (out : IO.FS.Stream) (st : St) : IO Unit := do
  let line ← h.getLine
  if line.isEmpty then return ()
  let (st', outs) := step st line
  for o in outs do out.putStrLn o
  out.flush
  loop h out st'

end Pegnet.Driver

def main : IO Unit := do
  Pegnet.Driver.loop (← IO.getStdin) (← IO.getStdout) {}
