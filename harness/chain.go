package main

// Chain construction: a BlockSpec (entries per tracked chain + factoid transactions) is encoded
// into the Factom binary formats the real client library decodes and verifies.

import (
	"bytes"
	"encoding/binary"
	"encoding/hex"
	"sort"
	"time"

	"github.com/Factom-Asset-Tokens/factom"
	"github.com/pegnet/pegnetd/config"
)

type BlockSpec struct {
	Height uint32
	Time   time.Time // minute granularity
	OPR    []factom.Entry
	SPR    []factom.Entry
	TX     []factom.Entry
	FCT    []factom.FactoidTransaction
	// filled by Install
	OPRKeyMR, TXKeyMR, SPRKeyMR string
	// order oracle for the model: the staking payout order the implementation chose (ties)
	StakeOrder []string
}

// ChainBase is the wall-clock origin of every generated chain (deterministic replays).
var ChainBase = time.Unix(1600000020, 0).UTC() // multiple of 60

func BlockTime(h uint32) time.Time { return ChainBase.Add(time.Duration(h) * time.Minute) }

// EntryTime is the timestamp the client library assigns to every entry of the block at h
// (all entries sit before a single minute-1 marker).
func EntryTime(h uint32) time.Time { return BlockTime(h).Add(time.Minute) }

// MakeEntry fills ChainID and Hash (from the binary encoding).
func MakeEntry(chain factom.Bytes32, extids [][]byte, content []byte) factom.Entry {
	c := chain
	e := factom.Entry{ChainID: &c, Content: content}
	for _, x := range extids {
		e.ExtIDs = append(e.ExtIDs, factom.Bytes(x))
	}
	raw, err := e.MarshalBinary()
	if err != nil {
		panic(err)
	}
	h := factom.ComputeEntryHash(raw)
	e.Hash = &h
	return e
}

func eblockRaw(chain factom.Bytes32, height uint32, seq uint32, entries []factom.Entry) (raw []byte, keymr factom.Bytes32) {
	objects := make([][]byte, 0, len(entries)+1)
	for _, e := range entries {
		h := *e.Hash
		objects = append(objects, append([]byte{}, h[:]...))
	}
	marker := factom.Bytes32{31: 1}
	objects = append(objects, marker[:])
	bodyMR, err := factom.ComputeEBlockBodyMR(objects)
	if err != nil {
		panic(err)
	}
	buf := new(bytes.Buffer)
	buf.Write(chain[:])
	buf.Write(bodyMR[:])
	var zero factom.Bytes32
	prev := zero
	binary.BigEndian.PutUint32(prev[:4], seq) // any value; not verified
	buf.Write(prev[:])
	buf.Write(zero[:])
	binary.Write(buf, binary.BigEndian, seq)
	binary.Write(buf, binary.BigEndian, height)
	binary.Write(buf, binary.BigEndian, uint32(len(objects)))
	for _, o := range objects {
		buf.Write(o)
	}
	raw = buf.Bytes()
	hh := factom.ComputeEBlockHeaderHash(raw)
	keymr = factom.ComputeKeyMR(&hh, &bodyMR)
	return
}

type chainKey struct {
	chain factom.Bytes32
	keymr factom.Bytes32
}

// Install encodes the block and registers every object with the fake node.
func (f *FakeFactom) Install(b *BlockSpec) {
	f.mu.Lock()
	defer f.mu.Unlock()
	var pairs []chainKey
	add := func(chain factom.Bytes32, entries []factom.Entry) string {
		if len(entries) == 0 {
			return ""
		}
		raw, keymr := eblockRaw(chain, b.Height, b.Height, entries)
		f.raw[hex.EncodeToString(keymr[:])] = raw
		for _, e := range entries {
			er, err := e.MarshalBinary()
			if err != nil {
				panic(err)
			}
			f.raw[hex.EncodeToString(e.Hash[:])] = er
		}
		pairs = append(pairs, chainKey{chain, keymr})
		return hex.EncodeToString(keymr[:])
	}
	b.OPRKeyMR = add(config.OPRChain, b.OPR)
	b.TXKeyMR = add(config.TransactionChain, b.TX)
	b.SPRKeyMR = add(config.SPRChain, b.SPR)
	// system chains
	fbRaw, fbKeyMR := fblockRaw(b.Height, b.FCT)
	f.fblocks[b.Height] = fbRaw
	f.raw[hex.EncodeToString(fbKeyMR[:])] = fbRaw
	for i := range b.FCT {
		tr, err := b.FCT[i].MarshalBinary()
		if err == nil && b.FCT[i].TransactionID != nil {
			f.raw[hex.EncodeToString(b.FCT[i].TransactionID[:])] = tr
		}
	}
	pairs = append(pairs, chainKey{factom.Bytes32{31: 0x0a}, factom.Bytes32{0: 0xaa, 31: byte(b.Height)}})
	pairs = append(pairs, chainKey{factom.Bytes32{31: 0x0c}, factom.Bytes32{0: 0xcc, 31: byte(b.Height)}})
	pairs = append(pairs, chainKey{factom.Bytes32{31: 0x0f}, fbKeyMR})
	sort.Slice(pairs, func(i, j int) bool { return bytes.Compare(pairs[i].chain[:], pairs[j].chain[:]) < 0 })
	elements := make([][]byte, len(pairs))
	for i, p := range pairs {
		el := make([]byte, 64)
		copy(el, p.chain[:])
		copy(el[32:], p.keymr[:])
		elements[i] = el
	}
	bodyMR, err := factom.ComputeDBlockBodyMR(elements)
	if err != nil {
		panic(err)
	}
	buf := new(bytes.Buffer)
	buf.WriteByte(0)
	buf.Write([]byte{0xfa, 0x92, 0xe5, 0xa2})
	buf.Write(bodyMR[:])
	var zero factom.Bytes32
	buf.Write(zero[:])
	buf.Write(zero[:])
	binary.Write(buf, binary.BigEndian, uint32(b.Time.Unix()/60))
	binary.Write(buf, binary.BigEndian, b.Height)
	binary.Write(buf, binary.BigEndian, uint32(len(pairs)))
	for _, el := range elements {
		buf.Write(el)
	}
	raw := buf.Bytes()
	hh := factom.ComputeDBlockHeaderHash(raw)
	keymr := factom.ComputeKeyMR(&hh, &bodyMR)
	f.dblocks[b.Height] = raw
	f.dbKeyMR[b.Height] = hex.EncodeToString(keymr[:])
}

// fblockRaw encodes a factoid block: a coinbase transaction first, then the given ones.
func fblockRaw(height uint32, txs []factom.FactoidTransaction) ([]byte, factom.Bytes32) {
	buf := new(bytes.Buffer)
	fc := factom.FBlockChainID()
	var zero factom.Bytes32
	buf.Write(fc[:])
	buf.Write(zero[:]) // BodyMR (not verified by the client library)
	buf.Write(zero[:])
	buf.Write(zero[:])
	binary.Write(buf, binary.BigEndian, uint64(1000))
	binary.Write(buf, binary.BigEndian, height)
	buf.WriteByte(0) // expansion size varint 0
	all := make([][]byte, 0, len(txs)+1)
	cb := factom.FactoidTransaction{}
	cb.Version = 2
	cb.TimestampSalt = BlockTime(height)
	cb.FCTInputs = []factom.FactoidTransactionIO{}
	cb.Signatures = []factom.FactoidTransactionSignature{}
	cbRaw, err := cb.MarshalBinary()
	if err != nil {
		panic(err)
	}
	all = append(all, cbRaw)
	for i := range txs {
		r, err := txs[i].MarshalBinary()
		if err != nil {
			panic(err)
		}
		all = append(all, r)
	}
	binary.Write(buf, binary.BigEndian, uint32(len(all)))
	size := 10
	for _, r := range all {
		size += len(r)
	}
	binary.Write(buf, binary.BigEndian, uint32(size))
	for _, r := range all {
		buf.Write(r)
	}
	buf.Write(make([]byte, 10)) // the ten minute markers
	raw := buf.Bytes()
	var fb factom.FBlock
	if err := fb.UnmarshalBinary(raw); err != nil {
		panic("fblock self-check: " + err.Error())
	}
	return raw, *fb.KeyMR
}

// MakeFctTx builds a factoid transaction (signatures are not verified by the client library).
func MakeFctTx(ts time.Time, ins, outs, ecs []factom.FactoidTransactionIO) factom.FactoidTransaction {
	var t factom.FactoidTransaction
	t.Version = 2
	t.TimestampSalt = ts
	t.FCTInputs = ins
	if t.FCTInputs == nil {
		t.FCTInputs = []factom.FactoidTransactionIO{}
	}
	t.FCTOutputs = outs
	t.ECOutputs = ecs
	t.Signatures = make([]factom.FactoidTransactionSignature, len(t.FCTInputs))
	for i := range t.Signatures {
		var rcd factom.RCD1
		rcd[0] = byte(i + 1)
		t.Signatures[i].ReedeemCondition = rcd
		t.Signatures[i].SignatureBlock = make([]byte, 64)
	}
	id, err := t.ComputeTransactionID()
	if err != nil {
		panic(err)
	}
	t.TransactionID = &id
	return t
}
