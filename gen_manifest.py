#!/usr/bin/env python3
"""Regenerates MANIFEST.json from checks_config.py and properties.jsonl."""
import json, os
ROOT = os.path.dirname(os.path.abspath(__file__))
import sys
sys.path.insert(0, ROOT)
from checks_config import CHECKS
props = [json.loads(l) for l in open(os.path.join(ROOT, "properties.jsonl"))]
hooks_commits = []
hp = os.path.join(ROOT, "hooks_commits.txt")
if os.path.exists(hp):
    hooks_commits = [l.strip() for l in open(hp) if l.strip()]
m = {
    "version": 1,
    "setup_cmd": "./setup.sh",
    "hooks": {
        "guard": "verif",
        "enable": "go build -tags verif (the harness module replaces github.com/pegnet/pegnetd by /repo)",
        "baseline_off_cmd": "cd /repo && go test -vet=off -count=1 ./...",
        "source_commits": hooks_commits,
        "add_only": True,
    },
    "engines": [
        {"name": "lean-model", "path": "lean/", "serves_properties": sorted(CHECKS), "kind_free_text": "Lean 4 model (Pegnet/), helper lemmas (Proofs/), property theorems (Props/), line-protocol driver"},
        {"name": "extractor", "path": "extract/", "serves_properties": sorted(CHECKS), "kind_free_text": "go/ast fact extractor regenerating Pegnet/Generated/Facts.lean"},
        {"name": "harness", "path": "harness/", "serves_properties": sorted(CHECKS), "kind_free_text": "Go correspondence harness: real daemon in-process against a fake Factom node, lock-step with the Lean driver, spec monitors"},
    ],
    "checks": [],
    "not_applicable": [],
    "notes": "All checks share ./check <id> --tier quick|thorough; see DESIGN.md section 5. known-findings.jsonl lists recorded defects.",
}
for p in props:
    pid = p["id"]
    if pid in CHECKS:
        c = CHECKS[pid]
        m["checks"].append({
            "property_id": pid,
            "quick_cmd": "./check %s --tier quick" % pid,
            "thorough_cmd": "./check %s --tier thorough" % pid,
            "evidence_file": "/verif/evidence/%s.json" % pid,
            "replay_cmd_template": "./replay {path}",
            "engine": "lean-model",
            "level_claimed": {
                "category": "proof",
                "text": c.get("level_text", "Machine-checked Lean 4 theorems about a hand-written executable model, tied to /repo by regenerated facts and by a differential correspondence run of the real code against the model on every check; the executable spec is also evaluated on the implementation's traces."),
                "design_ref": c.get("design_ref", "DESIGN.md §7"),
            },
            "level_note": "; ".join(c.get("assumptions", [])) + " | trusted: Lean kernel + axioms listed per theorem in the evidence (at most propext, Classical.choice, Quot.sound); extractor; harness; the parts of /repo listed as modelled in DESIGN.md §6",
            "technique": c["technique"],
        })
    else:
        m["not_applicable"].append({"property_id": pid, "reason": "check not built yet (work in progress; see DESIGN.md section 10)"})
json.dump(m, open(os.path.join(ROOT, "MANIFEST.json"), "w"), indent=1)
print("MANIFEST.json: %d checks, %d not yet claimed" % (len(m["checks"]), len(m["not_applicable"])))
