package main

import (
	"encoding/json"
	"flag"
	"fmt"
	"io/ioutil"
	"os"
	"sort"
	"strconv"
	"syscall"
	"time"
)

func os_setenv_lxr() { os.Setenv("LXRBITSIZE", "8") }

// Out is the harness' own output stream: fd 1 is redirected to /dev/null because the code under
// test prints to stdout.
var Out *os.File

func quietStdout() {
	fd, err := syscall.Dup(1)
	if err != nil {
		Out = os.Stdout
		return
	}
	Out = os.NewFile(uintptr(fd), "harness-out")
	null, err := os.OpenFile("/dev/null", os.O_WRONLY, 0)
	if err == nil {
		syscall.Dup2(int(null.Fd()), 1)
	}
}

func say(format string, a ...interface{}) { fmt.Fprintf(Out, format+"\n", a...) }

// Finding is a spec violation observed on the implementation.
type Finding struct {
	Property  string `json:"property"`
	Signature string `json:"signature"` // stable id: failure kind + call site / table + era + shape
	What      string `json:"what"`
	Replay    string `json:"replay"`
}

// Report is what one scenario run hands back to ./check.
type Report struct {
	Property      string                 `json:"property"`
	Scenario      string                 `json:"scenario"`
	Tier          string                 `json:"tier"`
	Seed          int64                  `json:"seed"`
	Evaluations   int                    `json:"evaluations"`
	Distinct      int                    `json:"distinct_nontrivial"`
	Rule          string                 `json:"rule"`
	Samples       []interface{}          `json:"samples"`
	Traces        int                    `json:"traces_validated_against_impl"`
	Disagreements []Finding              `json:"disagreements"` // model vs implementation
	Violations    []Finding              `json:"violations"`    // spec monitor on the implementation
	Notes         []string               `json:"notes"`
	Distribution  map[string]interface{} `json:"distribution"`
	WallS         float64                `json:"wall_s"`
	distinct      map[string]bool
}

func NewReport(prop, scen, tier string, seed int64) *Report {
	return &Report{Property: prop, Scenario: scen, Tier: tier, Seed: seed, Distribution: map[string]interface{}{}, distinct: map[string]bool{}}
}

func (r *Report) Case(key string, nontrivial bool) {
	r.Evaluations++
	if nontrivial && !r.distinct[key] {
		r.distinct[key] = true
		r.Distinct++
	}
}
func (r *Report) Sample(v interface{}) {
	if len(r.Samples) < 6 {
		r.Samples = append(r.Samples, v)
	}
}
func (r *Report) Count(key string) {
	c, _ := r.Distribution[key].(int)
	r.Distribution[key] = c + 1
}
func (r *Report) Disagree(sig, what, replay string) {
	n := 0
	for _, d := range r.Disagreements {
		if d.Signature == sig {
			n++
		}
	}
	if n >= 3 { // keep a few examples per signature
		return
	}
	r.Disagreements = append(r.Disagreements, Finding{r.Property, sig, what, replay})
}
func (r *Report) Violate(sig, what, replay string) {
	for _, v := range r.Violations {
		if v.Signature == sig {
			return
		}
	}
	r.Violations = append(r.Violations, Finding{r.Property, sig, what, replay})
}
func (r *Report) Note(f string, a ...interface{}) { r.Notes = append(r.Notes, fmt.Sprintf(f, a...)) }

type scenFn func(rep *Report, tier string, seed int64)

var scenarios = map[string]scenFn{}

func main() {
	quietStdout()
	if len(os.Args) < 2 {
		say("usage: vharness <scenario> [-tier quick|thorough] [-seed N] [-out file]")
		var names []string
		for k := range scenarios {
			names = append(names, k)
		}
		sort.Strings(names)
		say("scenarios: %v", names)
		os.Exit(2)
	}
	name := os.Args[1]
	if name == "child-sync" {
		childSync(os.Args[2:])
		return
	}
	if name == "child-api-lock" {
		childAPILock(os.Args[2:])
		return
	}
	if name == "replay" {
		replayCmd(os.Args[2:])
		return
	}
	fs := flag.NewFlagSet(name, flag.ExitOnError)
	tier := fs.String("tier", "quick", "")
	seed := fs.Int64("seed", 1, "")
	out := fs.String("out", "", "")
	prop := fs.String("prop", "", "")
	fs.Parse(os.Args[2:])
	if s := os.Getenv("VERIF_SEED"); s != "" && *seed == 1 {
		if v, err := strconv.ParseInt(s, 10, 64); err == nil {
			*seed = v
		}
	}
	fn, ok := scenarios[name]
	if !ok {
		say("unknown scenario %s", name)
		os.Exit(2)
	}
	rep := NewReport(*prop, name, *tier, *seed)
	curReport = rep
	start := time.Now()
	fn(rep, *tier, *seed)
	rep.WallS = time.Since(start).Seconds()
	data, _ := json.MarshalIndent(rep, "", " ")
	if *out != "" {
		ioutil.WriteFile(*out, data, 0644)
	}
	say("scenario %s: evaluations=%d distinct=%d disagreements=%d violations=%d wall=%.1fs",
		name, rep.Evaluations, rep.Distinct, len(rep.Disagreements), len(rep.Violations), rep.WallS)
	for _, d := range rep.Disagreements {
		say("  DISAGREE %s: %s (%s)", d.Signature, d.What, d.Replay)
	}
	for _, v := range rep.Violations {
		say("  SPEC-VIOLATION %s: %s (%s)", v.Signature, v.What, v.Replay)
	}
}
