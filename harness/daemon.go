package main

// The real daemon, in-process: node.NewPegnetd on a scratch SQLite file, its Factom client
// pointed at the fake node, and the real DBlockSync loop in a goroutine.

import (
	"context"
	"database/sql"
	"fmt"
	"io/ioutil"
	"os"
	"path/filepath"
	"runtime/debug"
	"strings"
	"sync"
	"time"

	"github.com/pegnet/pegnetd/config"
	"github.com/pegnet/pegnetd/fat/fat2"
	"github.com/pegnet/pegnetd/node"
	"github.com/pegnet/pegnetd/node/pegnet"
	log "github.com/sirupsen/logrus"
	"github.com/spf13/viper"
)

// Acts mirrors config's activation variables.
type Acts struct {
	Pegnet, GradingV2, TxConv, PegPricing, OneWayFCT, ConvLimit, PegFloat, RCDE, V4, V20,
	DevRewards, SprSig, OneWaySmall, V202, V204, V204Burn, PIP10 uint32
}

func MainnetActs() Acts {
	return Acts{config.PegnetActivation, config.GradingV2Activation, config.TransactionConversionActivation,
		config.PEGPricingActivation, config.OneWaypFCTConversions, config.PegnetConversionLimitActivation,
		config.PEGFreeFloatingPriceActivation, fat2.Fat2RCDEActivation, config.V4OPRUpdate, config.V20HeightActivation,
		config.V20DevRewardsHeightActivation, config.SprSignatureActivation, config.OneWaySmallAssetsConversions,
		config.V202EnhanceActivation, config.V204EnhanceActivation, config.V204BurnMintedTokenActivation,
		config.PIP10AverageActivation}
}

var mainnetActs Acts
var mainnetAvgPeriod, mainnetAvgRequired uint64
var mainnetSyncVersion int
var mainnetForks []pegnet.ForkEvent

func init() {
	mainnetActs = MainnetActs()
	mainnetAvgPeriod, mainnetAvgRequired = node.AveragePeriod, node.AverageRequired
	mainnetSyncVersion = pegnet.PegnetdSyncVersion
	mainnetForks = append([]pegnet.ForkEvent{}, pegnet.Hardforks...)
}

func (a Acts) Apply() {
	config.PegnetActivation = a.Pegnet
	config.GradingV2Activation = a.GradingV2
	config.TransactionConversionActivation = a.TxConv
	config.PEGPricingActivation = a.PegPricing
	config.OneWaypFCTConversions = a.OneWayFCT
	config.PegnetConversionLimitActivation = a.ConvLimit
	config.PEGFreeFloatingPriceActivation = a.PegFloat
	fat2.Fat2RCDEActivation = a.RCDE
	config.V4OPRUpdate = a.V4
	config.V20HeightActivation = a.V20
	config.V20DevRewardsHeightActivation = a.DevRewards
	config.SprSignatureActivation = a.SprSig
	config.OneWaySmallAssetsConversions = a.OneWaySmall
	config.V202EnhanceActivation = a.V202
	config.V204EnhanceActivation = a.V204
	config.V204BurnMintedTokenActivation = a.V204Burn
	config.PIP10AverageActivation = a.PIP10
}

// Setup is everything that configures one run of the implementation (and of the model).
type Setup struct {
	Acts        Acts
	AvgPeriod   uint64
	SyncVersion int
	Forks       []pegnet.ForkEvent
}

func (s Setup) Apply() {
	s.Acts.Apply()
	node.AveragePeriod = s.AvgPeriod
	node.AverageRequired = s.AvgPeriod / 2
	pegnet.PegnetdSyncVersion = s.SyncVersion
	if s.Forks != nil {
		pegnet.Hardforks = s.Forks
	}
}

type errHook struct {
	mu   sync.Mutex
	msgs []string
}

func (h *errHook) Levels() []log.Level { return []log.Level{log.ErrorLevel, log.FatalLevel} }
func (h *errHook) Fire(e *log.Entry) error {
	h.mu.Lock()
	defer h.mu.Unlock()
	msg := e.Message
	if err, ok := e.Data[log.ErrorKey]; ok {
		msg = fmt.Sprintf("%s: %v", msg, err)
	}
	h.msgs = append(h.msgs, msg)
	if len(h.msgs) > 64 {
		h.msgs = h.msgs[len(h.msgs)-64:]
	}
	return nil
}
func (h *errHook) Last() string {
	h.mu.Lock()
	defer h.mu.Unlock()
	if len(h.msgs) == 0 {
		return ""
	}
	return h.msgs[len(h.msgs)-1]
}
// Count returns how many of the retained messages contain sub.
func (h *errHook) Count(sub string) int {
	h.mu.Lock()
	defer h.mu.Unlock()
	n := 0
	for _, m := range h.msgs {
		if strings.Contains(m, sub) {
			n++
		}
	}
	return n
}
func (h *errHook) Clear() { h.mu.Lock(); h.msgs = nil; h.mu.Unlock() }

var theHook = &errHook{}

func init() {
	log.SetOutput(ioutil.Discard)
	log.SetLevel(log.ErrorLevel)
	log.AddHook(theHook)
	// logrus' Fatal would os.Exit the harness: turn it into a panic of the calling goroutine,
	// which the daemon wrapper records as a crash of the daemon
	log.StandardLogger().ExitFunc = func(code int) { panic(fmt.Sprintf("log.Fatal (exit %d): %s", code, theHook.Last())) }
}

type Daemon struct {
	N      *node.Pegnetd
	Fake   *FakeFactom
	Dir    string
	DBPath string
	cancel context.CancelFunc
	done   chan struct{}
	mu     sync.Mutex
	panicV string // set when the sync goroutine panicked
	JournalMode, Synchronous string // as configured by the daemon's own Init
}

// DaemonDSNExtra: further connection options for the daemon's pool (what an operator sets with
// db.mode), e.g. "&_busy_timeout=40"
var DaemonDSNExtra = ""

// OpenDaemon runs node.NewPegnetd on dir/sql.db (created if missing) with the statement-counting
// driver swapped in. The caller has applied the Setup.
func OpenDaemon(dir string, fake *FakeFactom) (*Daemon, error) {
	conf := viper.New()
	conf.Set(config.SqliteDBPath, filepath.Join(dir, "sql.db"))
	conf.Set(config.Server, "http://fake.invalid/v2")
	conf.Set(config.Wallet, "http://fake.invalid/v2")
	conf.Set(config.Network, "verif")
	conf.Set(config.DBlockSyncRetryPeriod, time.Millisecond)
	ctx, cancel := context.WithCancel(context.Background())
	n, err := node.NewPegnetd(ctx, conf)
	if err != nil {
		cancel()
		return nil, err
	}
	d := &Daemon{N: n, Fake: fake, Dir: dir, DBPath: filepath.Join(dir, "sql.db.v4"), cancel: cancel}
	n.FactomClient.Factomd.Transport = fake
	n.FactomClient.Factomd.Timeout = 20 * time.Second
	// swap the connection pool for one that goes through the wrapper — with the SAME storage
	// configuration the daemon's own Init chose for its connections (journal mode, synchronous):
	// crash consistency depends on it
	old := n.Pegnet.DB
	jm, sy := "delete", "2"
	old.QueryRow("PRAGMA journal_mode").Scan(&jm)
	old.QueryRow("PRAGMA synchronous").Scan(&sy)
	d.JournalMode, d.Synchronous = strings.ToLower(jm), sy
	db, err := sql.Open("sqlite3_verif", d.DBPath+"?_journal="+strings.ToUpper(jm)+"&_sync="+sy+DaemonDSNExtra)
	if err != nil {
		cancel()
		return nil, err
	}
	old.Close()
	n.Pegnet.DB = db
	return d, nil
}

func (d *Daemon) Start() {
	ctx, cancel := context.WithCancel(context.Background())
	d.cancel = cancel
	d.done = make(chan struct{})
	go func() {
		defer close(d.done)
		defer func() {
			if r := recover(); r != nil {
				st := string(debug.Stack())
				site := "?"
				for _, ln := range strings.Split(st, "\n") {
					if i := strings.Index(ln, "/repo/"); i >= 0 {
						site = strings.Fields(ln[i+6:])[0]
						break
					}
				}
				d.mu.Lock()
				d.panicV = fmt.Sprintf("%v @ %s", r, site)
				d.mu.Unlock()
			}
		}()
		d.N.DBlockSync(ctx)
	}()
}

func (d *Daemon) Panicked() string {
	d.mu.Lock()
	defer d.mu.Unlock()
	return d.panicV
}

// Stop cancels the sync loop and closes the database.
func (d *Daemon) Stop() {
	if d.cancel != nil {
		d.cancel()
	}
	if d.done != nil {
		select {
		case <-d.done:
		case <-time.After(10 * time.Second):
		}
	}
	d.N.Pegnet.DB.Close()
}

// CommittedSynced reads pn_metadata['synced'] through a fresh connection; -1 when absent.
func CommittedSynced(dbPath string) int64 {
	db, err := sql.Open("sqlite3", "file:"+dbPath+"?mode=ro&_busy_timeout=10000")
	if err != nil {
		return -2
	}
	defer db.Close()
	var data []byte
	if err := db.QueryRow("SELECT value FROM pn_metadata WHERE name = 'synced'").Scan(&data); err != nil {
		return -1
	}
	var v struct{ Synced int64 }
	if jsonUnmarshal(data, &v) != nil {
		return -2
	}
	return v.Synced
}

// StepTo raises the fake node's tip to h and waits until the daemon has finished (successfully
// or not) one full attempt at it. It returns the committed sync height afterwards and, when the
// block was not applied, the daemon's last error message (or its panic).
func (d *Daemon) StepTo(h uint32) (int64, string) {
	theHook.Clear()
	d.Fake.SetTip(h)
	// drain signals of requests that saw the old tip
	for {
		select {
		case <-d.Fake.heightsCh:
			continue
		default:
		}
		break
	}
	seen := 0
	deadline := time.After(90 * time.Second)
	tick := time.NewTicker(3 * time.Millisecond)
	defer tick.Stop()
	for {
		select {
		case <-d.Fake.heightsCh:
			seen++
		case <-d.done:
			seen = 1000
		case <-tick.C:
		case <-deadline:
			return CommittedSynced(d.DBPath), "timeout waiting for the daemon"
		}
		if p := d.Panicked(); p != "" {
			return CommittedSynced(d.DBPath), "panic: " + p
		}
		if seen < 2 {
			continue
		}
		s := CommittedSynced(d.DBPath)
		if s >= int64(h) {
			return s, ""
		}
		// not synced: a failure of this height has been logged (other clients of the fake node,
		// e.g. the API's get-sync-status, also produce heights requests, so the signal count
		// alone is not enough)
		if msg := theHook.Last(); msg != "" && seen >= 2 {
			if s2 := CommittedSynced(d.DBPath); s2 >= int64(h) {
				return s2, ""
			}
			return s, msg
		}
		if seen >= 1000 {
			return s, "daemon goroutine ended"
		}
	}
}

func tempDir(prefix string) string {
	base := os.Getenv("VERIF_SCRATCH")
	if base == "" {
		base = os.TempDir()
	}
	dir, err := ioutil.TempDir(base, prefix)
	if err != nil {
		panic(err)
	}
	return dir
}

// classify maps a daemon error message to the model's failure classes.
func classify(msg string) string {
	switch {
	case msg == "":
		return "ok"
	case strings.HasPrefix(msg, "panic:"):
		return "panic"
	case strings.Contains(msg, "injected upstream fault"):
		return "upstream"
	case strings.Contains(msg, "injected database fault"):
		return "dbfault"
	case strings.Contains(msg, "constraint failed"):
		i := strings.Index(msg, "constraint failed: ")
		rest := msg[i+len("constraint failed: "):]
		tbl := rest
		if j := strings.IndexAny(rest, ". ,"); j >= 0 {
			tbl = rest[:j]
		}
		return "constraint:" + tbl
	case strings.Contains(msg, "ht ") && strings.Contains(msg, "pos "):
		return "constraint:pn_winners"
	case strings.Contains(msg, "uncaught") || strings.Contains(msg, "rates must exist") ||
		strings.Contains(msg, "bank entry not") || strings.Contains(msg, "invalid rate") ||
		strings.Contains(msg, "integer overflow") || strings.Contains(msg, "not uint64") ||
		strings.Contains(msg, "invalid amount") || strings.Contains(msg, "txid already exists"):
		return "uncaught"
	case strings.Contains(msg, "no column named") || strings.Contains(msg, "high bit set") ||
		strings.Contains(msg, "invalid token type") || strings.Contains(msg, "database is locked") ||
		strings.Contains(msg, "no such column"):
		return "sqlerror"
	case strings.Contains(msg, "invalid previous winners") || strings.Contains(msg, "grade") || strings.Contains(msg, "version"):
		return "grader"
	}
	return "other"
}
