package main

// Adversarial chain content: malformed / oversized / truncated entries on the three tracked
// chains (C08), repeated entries (C06), and mutations of validly signed entries (C05).
// All run in lock-step with the model; the monitors are evaluated on the implementation.

import (
	"sort"
	"encoding/json"
	"fmt"
	"math/rand"
	"strings"

	"github.com/Factom-Asset-Tokens/factom"
	"github.com/pegnet/pegnetd/config"
	"github.com/pegnet/pegnetd/fat/fat2"
)

// primed returns a run synced to `upto` with funded users (pFCT from burns, PEG from mining).
func primed(rep *Report, s Setup, g *Gen, upto uint32) (*Run, *World, bool) {
	run, err := NewRun(s)
	if err != nil {
		rep.Note("infrastructure: %v", err)
		return nil, nil, false
	}
	run.FullEvery = 1000
	w := &World{G: g, Run: run, S: s, Rep: rep}
	for h := s.Acts.Pegnet + 1; h <= upto; h++ {
		b := &BlockSpec{Height: h, Time: BlockTime(h)}
		ver := OPRVersionAt(s.Acts, h)
		n := 25
		if ver == 1 {
			n = 10
		}
		b.OPR = g.OPRSet(h, ver, w.LastShortHashes(h), n, g.Rates, nil)
		if h < s.Acts.V20 {
			for i, u := range g.Users {
				b.FCT = append(b.FCT, Burn(h, u.FA(), 100e8, i))
			}
		} else if top := w.TopPEG(100); len(top) > 0 {
			ids := make([][]byte, 25)
			signers := make([]factom.FsAddress, 25)
			payout := make([]string, 25)
			for i := range ids {
				ids[i] = top[i%len(top)]
				signers[i] = g.Users[0].Fs
				payout[i] = g.Miners[i]
			}
			b.SPR = g.SPRSet(h, SPRVersionAt(s.Acts, h), ids, signers, payout, g.Rates, nil)
		}
		res := run.Step(b)
		rep.Traces++
		if res.Diff != "" || !res.ImplOK {
			// the plain chain that prepares the scenario is itself not applied as the model says
			path := WriteReplay(rep.Property, rep.Scenario+"-priming", Replay{Property: rep.Property, Scenario: rep.Scenario, Seed: g.Seed, Setup: s,
				What: fmt.Sprintf("priming chain: height %d", h), Detail: []string{res.Diff, res.ImplMsg, res.ModelAns}, Blocks: ChainJSON(run.Chain)})
			rep.Disagree("reference:priming:"+res.ImplClass, fmt.Sprintf("h=%d %s %s", h, res.Diff, res.ImplMsg), path)
			run.Close()
			return nil, nil, false
		}
	}
	return run, w, true
}

func (w *World) close() {
	if w.ro != nil {
		w.ro.Close()
		w.ro = nil
	}
}

// stepExpectOK applies b; on failure it records the violation, replaces the block by an empty
// one and reports whether the run can continue.
func stepExpectOK(rep *Report, run *Run, b *BlockSpec, seed int64, what string, sigPrefix string) (StepResult, bool) {
	run.ForceFull = true
	res := run.Step(b)
	rep.Traces++
	if res.Diff != "" {
		path := WriteReplay(rep.Property, rep.Scenario, Replay{Property: rep.Property, Scenario: rep.Scenario, Seed: seed, Setup: run.S,
			What: "model and implementation disagree: " + what, Detail: []string{res.Diff, "impl: " + res.ImplMsg, "model: " + res.ModelAns}, Blocks: ChainJSON(run.Chain)})
		rep.Disagree("lockstep:"+rep.Scenario+":"+eraOf(run.S.Acts, b.Height), res.Diff, path)
	}
	if !res.ImplOK {
		path := WriteReplay(rep.Property, rep.Scenario, Replay{Property: rep.Property, Scenario: rep.Scenario, Seed: seed, Setup: run.S,
			What: fmt.Sprintf("height %d cannot be applied (%s): %s", b.Height, what, res.ImplMsg), Blocks: ChainJSON(run.Chain)})
		cls := res.ImplClass
		if cls == "panic" {
			if i := strings.LastIndex(res.ImplMsg, "@ "); i >= 0 {
				cls = "panic:" + strings.TrimSpace(res.ImplMsg[i+2:])
			}
		}
		rep.Violate(sigPrefix+":"+cls, fmt.Sprintf("height %d (%s): %s", b.Height, what, res.ImplMsg), path)
		if err := run.RecoverFrom(res); err != nil {
			rep.Note("infrastructure: %v", err)
			return res, false
		}
		run.Chain = run.Chain[:len(run.Chain)-1]
		r2 := run.Step(&BlockSpec{Height: b.Height, Time: BlockTime(b.Height)})
		if r2.Diff != "" {
			// the model did not fail where the implementation did (or left another state behind):
			// a disagreement, on top of the liveness violation recorded above
			rep.Disagree("lockstep:"+rep.Scenario+":after-failed-block", fmt.Sprintf("h=%d %s", b.Height, r2.Diff), "")
			return res, false
		}
		if !r2.ImplOK {
			rep.Count("chain-wedged-for-good")
			return res, false
		}
	}
	return res, res.Diff == ""
}

func advActs() Acts {
	return Acts{Pegnet: 0, GradingV2: 2, TxConv: 3, PegPricing: 4, OneWayFCT: 5, ConvLimit: 6, PegFloat: 6, RCDE: 8, V4: 8,
		V20: 12, DevRewards: 200, SprSig: 200, OneWaySmall: 210, V202: 210, V204: 300, V204Burn: 310, PIP10: 400}
}

func randBytes(r *rand.Rand, n int) []byte {
	b := make([]byte, n)
	r.Read(b)
	return b
}

/* ---------------- C08: malformed content ---------------- */

func malformedEntries(r *rand.Rand, chain factom.Bytes32, valid []factom.Entry, n int, rep *Report) []factom.Entry {
	var out []factom.Entry
	for i := 0; i < n; i++ {
		kind := r.Intn(9)
		rep.Count(fmt.Sprintf("malformed:kind%d", kind))
		switch kind {
		case 0: // no external ids at all
			out = append(out, MakeEntry(chain, nil, randBytes(r, r.Intn(60))))
		case 1: // one external id
			out = append(out, MakeEntry(chain, [][]byte{randBytes(r, r.Intn(40))}, randBytes(r, r.Intn(200))))
		case 2: // many tiny external ids
			var ext [][]byte
			for j := 0; j < 2+r.Intn(40); j++ {
				ext = append(ext, randBytes(r, r.Intn(3)))
			}
			out = append(out, MakeEntry(chain, ext, randBytes(r, r.Intn(100))))
		case 3: // a valid entry with its content truncated
			if len(valid) > 0 {
				v := valid[r.Intn(len(valid))]
				ext := make([][]byte, len(v.ExtIDs))
				for j := range ext {
					ext[j] = v.ExtIDs[j]
				}
				c := v.Content
				if len(c) > 1 {
					c = c[:r.Intn(len(c))]
				}
				out = append(out, MakeEntry(chain, ext, c))
			}
		case 4: // a valid entry with an external id dropped / extra
			if len(valid) > 0 {
				v := valid[r.Intn(len(valid))]
				var ext [][]byte
				for j := range v.ExtIDs {
					ext = append(ext, v.ExtIDs[j])
				}
				if r.Intn(2) == 0 && len(ext) > 0 {
					ext = ext[:len(ext)-1]
				} else {
					ext = append(ext, randBytes(r, 8))
				}
				out = append(out, MakeEntry(chain, ext, v.Content))
			}
		case 5: // large content
			out = append(out, MakeEntry(chain, [][]byte{randBytes(r, 8), randBytes(r, 8), {byte(r.Intn(9))}}, randBytes(r, 9000)))
		case 6: // JSON-looking junk
			junk := []string{`{}`, `[]`, `null`, `{"version":1}`, `{"version":1,"transactions":[]}`, `{"version":1,"transactions":[{}]}`,
				`{"version":1,"transactions":[{"input":{"address":"FA2jK2HcLnRdS94dEcU27rF3meoJfpUcZPSinpb7AwQvPRY6RL1Q","amount":18446744073709551615,"type":"PEG"},"conversion":"pUSD"}]}`,
				`{"version":1,"transactions":[{"input":{"address":"FA2jK2HcLnRdS94dEcU27rF3meoJfpUcZPSinpb7AwQvPRY6RL1Q","amount":-1,"type":"PEG"},"conversion":"pUSD"}]}`,
				strings.Repeat("[", 2000), `{"version":1e400}`, "\xff\xfe\xfd", `{"version":1,"transactions":[{"input":{"address":"FA2jK2HcLnRdS94dEcU27rF3meoJfpUcZPSinpb7AwQvPRY6RL1Q","amount":1,"type":""},"conversion":"pUSD"}]}`,
				`{"version":1,"transactions":[{"input":{"address":"FA2jK2HcLnRdS94dEcU27rF3meoJfpUcZPSinpb7AwQvPRY6RL1Q","amount":1,"type":"x"},"conversion":"pUSD"}]}`}
			out = append(out, MakeEntry(chain, [][]byte{[]byte("1600000000"), randBytes(r, 33), randBytes(r, 64)}, []byte(junk[r.Intn(len(junk))])))
		case 7: // the same valid entry twice
			if len(valid) > 0 {
				v := valid[r.Intn(len(valid))]
				out = append(out, v, v)
			}
		case 8: // version byte games
			out = append(out, MakeEntry(chain, [][]byte{randBytes(r, 8), randBytes(r, 8), {}}, randBytes(r, 50)))
		}
	}
	return out
}

func scenMalformed(rep *Report, tier string, seed int64) {
	r := rand.New(rand.NewSource(seed))
	g := NewGen(seed, 4, 1)
	s := Setup{Acts: advActs(), AvgPeriod: 8, SyncVersion: mainnetSyncVersion}
	run, w, ok := primed(rep, s, g, 14)
	if !ok {
		return
	}
	defer run.Close()
	defer w.close()
	blocks := 16
	if tier == "thorough" {
		blocks = 80
	}
	for i := 0; i < blocks; i++ {
		h := uint32(15 + i)
		b := w.BuildBlock(h) // a normal block …
		which := r.Intn(4)
		// … with malformed entries mixed into one or all tracked chains
		if which == 0 || which == 3 {
			b.OPR = append(b.OPR, malformedEntries(r, config.OPRChain, b.OPR, 1+r.Intn(4), rep)...)
			r.Shuffle(len(b.OPR), func(i, j int) { b.OPR[i], b.OPR[j] = b.OPR[j], b.OPR[i] })
		}
		if which == 1 || which == 3 {
			b.SPR = append(b.SPR, malformedEntries(r, config.SPRChain, b.SPR, 1+r.Intn(4), rep)...)
		}
		if which == 2 || which == 3 {
			b.TX = append(b.TX, malformedEntries(r, config.TransactionChain, b.TX, 1+r.Intn(4), rep)...)
		}
		// validly signed batches whose amounts do not fit in an int64 (transfer and conversion)
		if u := g.Users[i%len(g.Users)]; !(u.IsE && h <= s.Acts.RCDE) {
			var o factom.FAAddress
			r.Read(o[:])
			huge := uint64(1)<<63 + uint64(r.Intn(1000))
			if i%2 == 0 {
				b.TX = append(b.TX, g.Batch(h, u, []fat2.Transaction{Transfer(u.FA(), fat2.PTickerUSD, fat2.AddressAmountTuple{Address: o, Amount: huge})}))
			} else {
				b.TX = append(b.TX, g.Batch(h, u, []fat2.Transaction{Conversion(u.FA(), fat2.PTickerUSD, huge, fat2.PTickerEUR)}))
			}
			rep.Count("malformed:amount-above-int64")
		}
		// a validly signed zero-amount transfer whose input has no "type" key but an unknown key
		// of compensating length
		if i%3 == 1 {
			if u := g.Users[(i+1)%len(g.Users)]; !(u.IsE && h <= s.Acts.RCDE) {
				var o factom.FAAddress
				r.Read(o[:])
				content := fmt.Sprintf(`{"version":1,"transactions":[{"input":{"address":"%s","amount":0,"aaaaaaaaaaaaaaaaaaaaaaa":1},"transfers":[{"address":"%s","amount":0}]}]}`, u.FA().String(), o.String())
				b.TX = append(b.TX, SignBatch([]byte(content), EntryTime(h).Unix(), u.Signer()))
				rep.Count("malformed:input-without-type")
			}
		}
		// validly signed, well-formed batches built to overdraw through a change output: the first
		// transfer returns part of its input to the sender, the second spends more than is left
		// (every single input is within the balance the address had before the batch)
		if i%2 == 1 {
			for _, u := range g.Users {
				if u.IsE && h <= s.Acts.RCDE {
					continue
				}
				var tk fat2.PTicker
				var x uint64
				for _, t := range w.NonZeroAssets(u.FA()) {
					if bal := w.Balance(u.FA(), t); bal > 1000 {
						tk, x = t, bal
						break
					}
				}
				if x == 0 {
					continue
				}
				var o1, o2 factom.FAAddress
				r.Read(o1[:])
				r.Read(o2[:])
				first := x - x/5
				change := first / 3
				left := x - first + change
				second := left + 1 + uint64(r.Intn(int(first-change)))
				if i%4 == 1 {
					b.TX = append(b.TX, g.Batch(h, u, []fat2.Transaction{
						Transfer(u.FA(), tk, fat2.AddressAmountTuple{Address: o1, Amount: first - change}, fat2.AddressAmountTuple{Address: u.FA(), Amount: change}),
						Transfer(u.FA(), tk, fat2.AddressAmountTuple{Address: o2, Amount: second})}))
					rep.Count("malformed:change-output-overdraft")
				} else {
					// the overdrawing transfer itself pays back to the sender (its input is within the
					// balance before the batch, but not within what the first transfer leaves)
					b.TX = append(b.TX, g.Batch(h, u, []fat2.Transaction{
						Transfer(u.FA(), tk, fat2.AddressAmountTuple{Address: o1, Amount: first}),
						Transfer(u.FA(), tk, fat2.AddressAmountTuple{Address: u.FA(), Amount: x})}))
					rep.Count("malformed:self-output-overdraft")
				}
				break
			}
		}
		res, cont := stepExpectOK(rep, run, b, seed, "block with malformed entries", "liveness")
		rep.Case(fmt.Sprintf("chains=%d|%s|opr%d|spr%d|tx%d", which, res.ImplClass, bucket(len(b.OPR)), bucket(len(b.SPR)), bucket(len(b.TX))), true)
		rep.Count("result:" + res.ImplClass)
		if len(rep.Samples) < 3 {
			rep.Sample(map[string]interface{}{"height": h, "opr_entries": len(b.OPR), "spr_entries": len(b.SPR), "tx_entries": len(b.TX), "result": res.ImplClass})
		}
		if !cont {
			return
		}
	}
	rep.Rule = "one evaluation = a block whose tracked chains carry malformed entries (0/1/many external ids, truncated or oversized content, JSON junk, duplicated entries) on top of a reachable ledger, applied by the real daemon in lock-step with the model; the block must be applied; distinct = (chains attacked, outcome, entry-count buckets)"
}

/* ---------------- C06: repeated entries ---------------- */

func scenDups(rep *Report, tier string, seed int64) {
	r := rand.New(rand.NewSource(seed))
	_ = NewGen
	s := Setup{Acts: advActs(), AvgPeriod: 8, SyncVersion: mainnetSyncVersion}
	patterns := []string{"transfer-same-block", "transfer-next-block", "transfer-after-gap", "conversion-after-execution", "rejected-then-funded",
		"conversion-same-block", "conversion-next-block-while-pending", "rejected-again-later"}
	for pi, pat := range patterns {
		if tier != "thorough" && pi >= 8 {
			break
		}
		// run A: with the duplicates; run B: first occurrences only
		final := map[bool][]string{}
		stuck := map[bool]bool{}
		for _, withDup := range []bool{true, false} {
			gg := NewGen(seed, 4, 0)
			run, w, ok := primed(rep, s, gg, 14)
			if !ok {
				return
			}
			u := gg.Users[pi%len(gg.Users)]
			v := gg.Users[(pi+1)%len(gg.Users)]
			bal := w.Balance(u.FA(), fat2.PTickerFCT)
			transfer := gg.Batch(15, u, []fat2.Transaction{Transfer(u.FA(), fat2.PTickerFCT, fat2.AddressAmountTuple{Address: v.FA(), Amount: bal / 4})})
			conv := gg.Batch(15, u, []fat2.Transaction{Conversion(u.FA(), fat2.PTickerFCT, bal/4, fat2.PTickerUSD)})
			over := gg.Batch(15, u, []fat2.Transaction{Transfer(u.FA(), fat2.PTickerFCT, fat2.AddressAmountTuple{Address: v.FA(), Amount: bal + 1})})
			graded := func(h uint32, txs ...factom.Entry) *BlockSpec {
				b := &BlockSpec{Height: h, Time: BlockTime(h), TX: txs}
				b.OPR = gg.OPRSet(h, OPRVersionAt(s.Acts, h), w.LastShortHashes(h), 25, gg.Rates, nil)
				if top := w.TopPEG(100); len(top) > 0 {
					ids := make([][]byte, 25)
					signers := make([]factom.FsAddress, 25)
					payout := make([]string, 25)
					for i := range ids {
						ids[i] = top[i%len(top)]
						signers[i] = gg.Users[0].Fs
						payout[i] = gg.Miners[i]
					}
					b.SPR = gg.SPRSet(h, SPRVersionAt(s.Acts, h), ids, signers, payout, gg.Rates, nil)
				}
				return b
			}
			ungraded := func(h uint32, txs ...factom.Entry) *BlockSpec {
				return &BlockSpec{Height: h, Time: BlockTime(h), TX: txs}
			}
			// every repetition is followed, in the same entry block, by a fresh valid transfer of
			// another user (present in both runs): whatever the copy does to the entries after it
			// shows as a different ledger
			tails := 0
			dup := func(e factom.Entry) []factom.Entry {
				tails++
				tail := gg.Batch(15, v, []fat2.Transaction{Transfer(v.FA(), fat2.PTickerFCT, fat2.AddressAmountTuple{Address: u.FA(), Amount: uint64(1000 + tails)})})
				if withDup {
					return []factom.Entry{e, tail}
				}
				return []factom.Entry{tail}
			}
			var plan []*BlockSpec
			switch pat {
			case "transfer-same-block":
				plan = []*BlockSpec{graded(15, append([]factom.Entry{transfer}, dup(transfer)...)...), graded(16)}
			case "transfer-next-block":
				plan = []*BlockSpec{graded(15, transfer), graded(16, dup(transfer)...), graded(17)}
			case "transfer-after-gap":
				plan = []*BlockSpec{graded(15, transfer), ungraded(16), ungraded(17, dup(transfer)...), graded(18, dup(transfer)...)}
			case "conversion-after-execution":
				plan = []*BlockSpec{graded(15, conv), graded(16), graded(17, dup(conv)...), graded(18), graded(19)}
			case "rejected-then-funded":
				// the over-spending transfer is rejected (-1); written again after the funds arrived it
				// must not execute twice either (it executes at most once)
				plan = []*BlockSpec{graded(15, over), graded(16), graded(17)}
				if withDup {
					plan[1] = graded(16, over)
				}
			case "conversion-same-block":
				plan = []*BlockSpec{graded(15, append([]factom.Entry{conv}, dup(conv)...)...), graded(16), graded(17)}
			case "conversion-next-block-while-pending":
				plan = []*BlockSpec{ungraded(15, conv), ungraded(16, dup(conv)...), graded(17), graded(18)}
			case "rejected-again-later":
				plan = []*BlockSpec{graded(15, over), graded(16, dup(over)...), graded(17)}
			}
			rep.Scenario = "dups"
			for _, b := range plan {
				// the generated OPR set depends on the live previous winners: rebuild it just in time
				if len(b.OPR) > 0 {
					b.OPR = gg.OPRSet(b.Height, OPRVersionAt(s.Acts, b.Height), w.LastShortHashes(b.Height), 25, gg.Rates, nil)
				}
				res, cont := stepExpectOK(rep, run, b, seed, "pattern "+pat, "dups:"+pat)
				if !res.ImplOK {
					stuck[withDup] = true
				}
				final[withDup] = res.Dump
				if !cont {
					break
				}
			}
			if d, err := DumpDB(run.D.DBPath); err == nil {
				final[withDup] = d
			}
			w.close()
			run.Close()
			_ = r
		}
		rep.Case("pattern="+pat, true)
		rep.Count("pattern:" + pat)
		if !stuck[true] && !stuck[false] {
			// balances (and only balances / relations) must be equal: history rows of the duplicates differ by design
			keep := map[string]bool{"A": true, "X": true, "H": true}
			stripKeymr := func(lines []string) []string {
				out := make([]string, len(lines))
				for i, l := range lines {
					if strings.HasPrefix(l, "H|") { // the eblock key MR depends on the block's entry list by construction
						l = l[:strings.LastIndex(l, "|")]
					}
					out[i] = l
				}
				return out
			}
			if diff := FirstDiff(stripKeymr(FilterDump(final[true], keep)), stripKeymr(FilterDump(final[false], keep))); diff != "" {
				path := WriteReplay(rep.Property, "dups", Replay{Property: rep.Property, Scenario: "dups", Seed: seed, Setup: s,
					What: "the ledger of the chain with repeated entries differs from the chain with first occurrences only (pattern " + pat + ")", Detail: []string{diff}})
				rep.Violate("dups:ledger-differs:"+pat, diff, path)
			}
		}
		if len(rep.Samples) < 3 {
			rep.Sample(map[string]interface{}{"pattern": pat, "wedged_with_duplicates": stuck[true]})
		}
	}
	// a conversion held before the database has seen any rates at all: the first rated block
	// executes it (the pass walks the holding table from the last rated height, 0 when there is
	// none). Funds come from FCT burns, which need no rates.
	{
		acts := Acts{Pegnet: 0, GradingV2: 1, TxConv: 2, PegPricing: 3, OneWayFCT: 20, ConvLimit: 30, PegFloat: 30, RCDE: 40, V4: 40,
			V20: 50, DevRewards: 200, SprSig: 200, OneWaySmall: 210, V202: 210, V204: 300, V204Burn: 310, PIP10: 400}
		s2 := Setup{Acts: acts, AvgPeriod: 8, SyncVersion: mainnetSyncVersion}
		gg := NewGen(seed, 3, 0)
		if run, err := NewRun(s2); err != nil {
			rep.Note("infrastructure: %v", err)
		} else {
			w := &World{G: gg, Run: run, S: s2, Rep: rep}
			u := gg.Users[0]
			b1 := &BlockSpec{Height: 1, Time: BlockTime(1)}
			for i, x := range gg.Users {
				b1.FCT = append(b1.FCT, Burn(1, x.FA(), 100e8, i))
			}
			conv := gg.Batch(3, u, []fat2.Transaction{Conversion(u.FA(), fat2.PTickerFCT, 25e8, fat2.PTickerUSD)})
			b3 := &BlockSpec{Height: 3, Time: BlockTime(3), TX: []factom.Entry{conv}}
			b5 := &BlockSpec{Height: 5, Time: BlockTime(5)}
			plan := []*BlockSpec{b1, {Height: 2, Time: BlockTime(2)}, b3, {Height: 4, Time: BlockTime(4)}, b5, {Height: 6, Time: BlockTime(6)}}
			okSoFar := true
			for _, b := range plan {
				if b.Height >= 5 {
					b.OPR = gg.OPRSet(b.Height, OPRVersionAt(acts, b.Height), w.LastShortHashes(b.Height), 25, gg.Rates, nil)
				}
				if _, cont := stepExpectOK(rep, run, b, seed, "a conversion held before any block had rates", "dups"); !cont {
					okSoFar = false
					break
				}
			}
			if okSoFar {
				rep.Case("held-before-first-rates", true)
				rep.Count("dups:held-before-first-rates")
				if got := w.Balance(u.FA(), fat2.PTickerFCT); got != 75e8 {
					rep.Violate("dups:held-before-first-rates", fmt.Sprintf("the conversion held at height 3 (no rated block before height 5) was not executed by the first rated block: pFCT balance %d, expected %d", got, uint64(75e8)), "")
				}
			}
			if w.ro != nil {
				w.ro.Close()
			}
			run.Close()
		}
	}
	rep.Rule = "one evaluation = one repetition pattern (same block, next block, across ungraded blocks, after execution, after rejection, while pending) synced twice — with the duplicates and with first occurrences only — in lock-step with the model; balances, relations and holding must be equal and every block must apply; distinct = patterns"
}

/* ---------------- C05: mutations of signed entries ---------------- */

func cloneEntryWith(e factom.Entry, ext [][]byte, content []byte) factom.Entry {
	return MakeEntry(*e.ChainID, ext, content)
}

func extCopy(e factom.Entry) [][]byte {
	out := make([][]byte, len(e.ExtIDs))
	for i := range e.ExtIDs {
		out[i] = append([]byte{}, e.ExtIDs[i]...)
	}
	return out
}

func scenSigMut(rep *Report, tier string, seed int64) {
	r := rand.New(rand.NewSource(seed))
	s := Setup{Acts: advActs(), AvgPeriod: 8, SyncVersion: mainnetSyncVersion}
	type eraCase struct {
		name   string
		prime  uint32
		useEth bool
	}
	cases := []eraCase{{"rcd1", 14, false}, {"rcde-after-activation", 14, true}, {"rcde-before-activation", 6, true}, {"rcde-at-activation", 7, true}}
	for _, ec := range cases {
		g := NewGen(seed, 3, 2)
		run, w, ok := primed(rep, s, g, ec.prime)
		if !ok {
			return
		}
		rep.Scenario = "sigmut"
		var signer Key
		for _, u := range g.Users {
			if u.IsE == ec.useEth {
				signer = u
			}
		}
		if ec.useEth {
			// fund the eth-keyed user by a burn-free route: PEG from mining is enough
		}
		dst := g.Users[0].FA()
		h := ec.prime + 1
		asset := fat2.PTickerFCT
		bal := w.Balance(signer.FA(), asset)
		if bal == 0 {
			asset = fat2.PTickerPEG
			bal = w.Balance(signer.FA(), asset)
		}
		amount := bal / 100 // small: every mutant that executes (known finding: RCD-e recovery byte) spends it again, and the held conversion below must stay funded
		txs := []fat2.Transaction{Transfer(signer.FA(), asset, fat2.AddressAmountTuple{Address: dst, Amount: amount})}
		orig := g.Batch(h, signer, txs)
		// mutants
		var muts []factom.Entry
		var kinds []string
		add := func(kind string, e factom.Entry) {
			if *e.Hash != *orig.Hash {
				muts = append(muts, e)
				kinds = append(kinds, kind)
			}
		}
		nflips := 120
		if tier == "thorough" {
			nflips = 1200
		}
		for i := 0; i < nflips; i++ {
			ext := extCopy(orig)
			content := append([]byte{}, orig.Content...)
			where := r.Intn(4)
			switch where {
			case 0:
				bit := r.Intn(len(content) * 8)
				content[bit/8] ^= 1 << uint(bit%8)
				add("flip:content", cloneEntryWith(orig, ext, content))
			default:
				k := where - 1
				if k < len(ext) && len(ext[k]) > 0 {
					bit := r.Intn(len(ext[k]) * 8)
					ext[k][bit/8] ^= 1 << uint(bit%8)
					kind := fmt.Sprintf("flip:extid%d", k)
					if k == 2 && len(ext) == 3 && bit/8 == len(ext[2])-1 {
						kind = "flip:sig-last-byte" // the byte the enumeration below flips bit by bit
					}
					add(kind, cloneEntryWith(orig, ext, content))
				}
			}
		}
		// insignificant JSON whitespace: the signature covers the exact content bytes, so a padded
		// copy (a different entry hash, hence not a replay) must not execute
		for _, ws := range []string{" ", "\n", "\t", "\r"} {
			c := string(orig.Content)
			add("ws:append", cloneEntryWith(orig, extCopy(orig), []byte(c+ws)))
			add("ws:prepend", cloneEntryWith(orig, extCopy(orig), []byte(ws+c)))
			if i := strings.Index(c, ","); i > 0 {
				add("ws:after-comma", cloneEntryWith(orig, extCopy(orig), []byte(c[:i+1]+ws+c[i+1:])))
			}
			if i := strings.Index(c, ":"); i > 0 {
				add("ws:after-colon", cloneEntryWith(orig, extCopy(orig), []byte(c[:i+1]+ws+c[i+1:])))
			}
			if i := strings.LastIndex(c, "}"); i > 0 {
				add("ws:before-closing-brace", cloneEntryWith(orig, extCopy(orig), []byte(c[:i]+ws+c[i:])))
			}
		}
		if len(orig.ExtIDs) == 3 {
			// every bit of the last signature byte (the RCD-e recovery byte when present)
			for bit := 0; bit < 8; bit++ {
				ext := extCopy(orig)
				last := len(ext[2]) - 1
				ext[2][last] ^= 1 << uint(bit)
				add("flip:sig-last-byte", cloneEntryWith(orig, ext, orig.Content))
			}
			ext := extCopy(orig)
			add("missing-signature", cloneEntryWith(orig, ext[:2], orig.Content))
			add("missing-rcd-and-signature", cloneEntryWith(orig, ext[:1], orig.Content))
			add("duplicated-pair", cloneEntryWith(orig, append(extCopy(orig), ext[1], ext[2]), orig.Content))
			add("swapped-rcd-signature", cloneEntryWith(orig, [][]byte{ext[0], ext[2], ext[1]}, orig.Content))
			add("extra-extid", cloneEntryWith(orig, append(extCopy(orig), []byte("x")), orig.Content))
			// no external ids at all (neither salt nor signature): the same content, bare
			add("no-extids", cloneEntryWith(orig, nil, orig.Content))
			add("only-salt", cloneEntryWith(orig, ext[:1], append([]byte{}, orig.Content...)))
			// signed by somebody else's key
			other := g.Users[1]
			content, _ := json.Marshal(struct {
				Version      uint               `json:"version"`
				Transactions []fat2.Transaction `json:"transactions"`
			}{1, txs})
			add("signed-by-other-key", SignBatch(content, EntryTime(h).Unix(), other.Signer()))
			// salt outside the window
			for _, off := range []int64{12*3600 + 1, -(12*3600 + 1), 12 * 3600, -12 * 3600} {
				e := SignBatch(content, EntryTime(h).Unix()+off, signer.Signer())
				kind := "salt-outside-window"
				if off == 12*3600 || off == -12*3600 {
					kind = "salt-at-window-edge"
				}
				add(kind, e)
			}
		}
		// batches that name ANOTHER address as the input of one of their transactions while
		// carrying only the signer's signature: first, last, middle, or the only transaction (and,
		// with both signatures present, two input addresses in one batch, which the format forbids)
		{
			var victim Key
			var vAsset fat2.PTicker
			for _, u := range g.Users {
				if u.FA() == signer.FA() {
					continue
				}
				for _, t := range w.NonZeroAssets(u.FA()) {
					if w.Balance(u.FA(), t) > 100 {
						victim, vAsset = u, t
						break
					}
				}
				if vAsset != fat2.PTickerInvalid {
					break
				}
			}
			if vAsset != fat2.PTickerInvalid {
				own := func(k uint64) fat2.Transaction {
					return Transfer(signer.FA(), asset, fat2.AddressAmountTuple{Address: dst, Amount: 1 + k})
				}
				steal := Transfer(victim.FA(), vAsset, fat2.AddressAmountTuple{Address: signer.FA(), Amount: w.Balance(victim.FA(), vAsset) / 2})
				mk := func(kind string, txs []fat2.Transaction, signers ...factom.RCDSigner) {
					content, _ := json.Marshal(struct {
						Version      uint               `json:"version"`
						Transactions []fat2.Transaction `json:"transactions"`
					}{1, txs})
					add(kind, SignBatch(content, EntryTime(h).Unix()+int64(len(kinds)%200), signers...))
				}
				mk("foreign-input:last", []fat2.Transaction{own(1), steal}, signer.Signer())
				mk("foreign-input:first", []fat2.Transaction{steal, own(2)}, signer.Signer())
				mk("foreign-input:middle", []fat2.Transaction{own(3), steal, own(4)}, signer.Signer())
				mk("foreign-input:last-of-three", []fat2.Transaction{own(5), own(6), steal}, signer.Signer())
				mk("foreign-input:only", []fat2.Transaction{steal}, signer.Signer())
				if !(victim.IsE && h <= s.Acts.RCDE) {
					mk("two-input-addresses:both-signed", []fat2.Transaction{own(7), steal}, signer.Signer(), victim.Signer())
				}
				rep.Count("sigmut:foreign-input-batches")
			}
		}
		// one more validly signed entry by the same key: a conversion, which is held and executed
		// (re-validated, signature and key type included) by the next rated block
		held := g.Batch(h, signer, []fat2.Transaction{Conversion(signer.FA(), asset, bal/20, fat2.PTickerUSD)})
		entries := append([]factom.Entry{orig, held}, muts...)
		b := &BlockSpec{Height: h, Time: BlockTime(h), TX: entries}
		b.OPR = g.OPRSet(h, OPRVersionAt(s.Acts, h), w.LastShortHashes(h), 25, g.Rates, nil)
		before := w.Balance(signer.FA(), asset)
		res, cont := stepExpectOK(rep, run, b, seed, "block with "+fmt.Sprint(len(muts))+" mutants of one signed transfer ("+ec.name+")", "sigmut")
		w.close()
		after := w.Balance(signer.FA(), asset)
		executed := 0
		var executedKinds []string
		if res.ImplOK {
			L := ParseDump(res.Dump)
			byHash := map[string]int64{}
			for _, bb := range L.B {
				byHash[bb.hash] = bb.exec
			}
			if byHash[hx(orig.Hash[:])] > 0 {
				executed++
			}
			for i, m := range muts {
				if byHash[hx(m.Hash[:])] > 0 {
					executed++
					executedKinds = append(executedKinds, kinds[i])
				}
			}
		}
		expectOrig := 1
		if ec.name == "rcde-before-activation" || ec.name == "rcde-at-activation" {
			expectOrig = 0
		}
		rep.Case(fmt.Sprintf("%s|mutants=%d|executed=%d", ec.name, bucket(len(muts)), executed), true)
		rep.Count("sigmut:" + ec.name)
		// salt exactly at the edge is inside the window: it is a second valid signature by the key
		// holder over a different message (different salt), so it may execute: not a violation
		extra := 0
		for _, k := range executedKinds {
			if k != "salt-at-window-edge" {
				extra++
			}
		}
		if res.ImplOK && (extra > 0 || executed < expectOrig) {
			path := WriteReplay(rep.Property, "sigmut", Replay{Property: rep.Property, Scenario: "sigmut", Seed: seed, Setup: s,
				What:   fmt.Sprintf("%s: %d executions for one signature (expected %d); executed mutants: %v; balance %d -> %d (one transfer = %d)", ec.name, executed, expectOrig, executedKinds, before, after, amount),
				Blocks: ChainJSON(run.Chain)})
			sig := "sigmut:extra-execution:" + ec.name
			if len(executedKinds) > 0 {
				// the signature names every kind of mutant that executed (a known finding for one
				// kind must not hide another kind)
				set := map[string]bool{}
				var ks []string
				for _, k := range executedKinds {
					if k != "salt-at-window-edge" && !set[k] {
						set[k] = true
						ks = append(ks, k)
					}
				}
				sort.Strings(ks)
				sig += ":" + strings.Join(ks, "+")
			}
			if executed < expectOrig {
				sig = "sigmut:valid-entry-not-executed:" + ec.name
			}
			rep.Violate(sig, fmt.Sprintf("%s: executed mutants %v", ec.name, executedKinds), path)
		}
		if expectOrig == 0 && executed > 0 {
			rep.Violate("sigmut:key-type-before-activation:"+ec.name, "an RCD-e signed entry executed before the key type was activated", "")
		}
		if res.ImplOK && cont {
			b2 := &BlockSpec{Height: h + 1, Time: BlockTime(h + 1)}
			b2.OPR = g.OPRSet(h+1, OPRVersionAt(s.Acts, h+1), w.LastShortHashes(h+1), 25, g.Rates, nil)
			res2, cont2 := stepExpectOK(rep, run, b2, seed, "the block that executes the held conversion ("+ec.name+")", "sigmut")
			w.close()
			if res2.ImplOK {
				var exec int64
				found := false
				for _, bb := range ParseDump(res2.Dump).B {
					if bb.hash == hx(held.Hash[:]) {
						exec, found = bb.exec, true
					}
				}
				rep.Case(fmt.Sprintf("%s|held-conversion|recorded=%v|status=%d", ec.name, found, exec), true)
				rep.Count("sigmut:held-conversion:" + ec.name)
				if expectOrig == 1 && exec != int64(h+1) {
					path := WriteReplay(rep.Property, "sigmut-held", Replay{Property: rep.Property, Scenario: "sigmut", Seed: seed, Setup: s,
						What:   fmt.Sprintf("%s: a validly signed conversion entered at height %d was not executed by the next rated block (recorded=%v, status %d)", ec.name, h, found, exec),
						Blocks: ChainJSON(run.Chain)})
					rep.Violate("sigmut:valid-held-entry-not-executed:"+ec.name, fmt.Sprintf("held conversion %s: recorded=%v status=%d, expected executed at %d", hx(held.Hash[:]), found, exec, h+1), path)
				}
				if expectOrig == 0 && found {
					rep.Violate("sigmut:key-type-before-activation:held:"+ec.name, "an RCD-e signed conversion was recorded before the key type was activated", "")
				}
			}
			cont = cont2
		}
		if len(rep.Samples) < 4 {
			rep.Sample(map[string]interface{}{"era": ec.name, "mutants": len(muts), "executed": executed, "executed_kinds": executedKinds})
		}
		run.Close()
		if !cont {
			return
		}
	}
	// the schedule the binary ships with: "V4OPRUpdate indicates the activation of additional
	// currencies and ecdsa keys" (config/activations.go) — with the shipped constants an RCD-e signed
	// batch validates exactly ABOVE the V4 OPR update height (`height > Fat2RCDEActivation`, as in the
	// model's key_type_by_height; the scenarios above run on a compressed schedule that overwrites
	// both constants)
	{
		saved := fat2.Fat2RCDEActivation
		fat2.Fat2RCDEActivation = mainnetActs.RCDE
		g := NewGen(seed, 3, 2)
		for _, u := range g.Users {
			if !u.IsE {
				continue
			}
			v4 := mainnetActs.V4
			hs := []uint32{v4 - 1, v4, v4 + 1, mainnetActs.RCDE - 1, mainnetActs.RCDE, mainnetActs.RCDE + 1, v4 - 360, v4 - 361, v4 + 360}
			for i := 0; i < 40; i++ {
				hs = append(hs, v4-1000+uint32(r.Intn(2000)))
			}
			for _, h := range hs {
				e := g.Batch(h, u, []fat2.Transaction{Transfer(u.FA(), fat2.PTickerPEG, fat2.AddressAmountTuple{Address: g.Users[0].FA(), Amount: 5})})
				e.Timestamp = EntryTime(h)
				_, err := fat2.NewTransactionBatch(e, int32(h))
				rep.Count(fmt.Sprintf("sigmut:shipped-schedule:accepted=%v", err == nil))
				rep.Case(fmt.Sprintf("shipped-schedule|after-v4=%v|accepted=%v", h > v4, err == nil), true)
				if (err == nil) != (h > v4) {
					path := WriteReplay(rep.Property, "sigmut-schedule", Replay{Property: rep.Property, Scenario: "sigmut", Seed: seed,
						What:  fmt.Sprintf("with the shipped activation constants an RCD-e signed batch at height %d is accepted=%v; ecdsa keys are accepted above the V4 OPR update height %d", h, err == nil, v4),
						Extra: map[string]interface{}{"height": h, "Fat2RCDEActivation": mainnetActs.RCDE, "V4OPRUpdate": v4, "entry": hx(e.Content), "error": fmt.Sprint(err)}})
					rep.Violate("sigmut:key-type-shipped-schedule", fmt.Sprintf("height %d: RCD-e signed batch accepted=%v (Fat2RCDEActivation=%d, V4OPRUpdate=%d)", h, err == nil, mainnetActs.RCDE, v4), path)
					break
				}
			}
			break
		}
		fat2.Fat2RCDEActivation = saved
	}
	rep.Rule = "one evaluation = one block carrying a validly signed transfer plus its mutants (single-bit flips of content and of every external id, missing / duplicated / swapped signature pairs, other key, salt at and outside +-12h), per key type and activation era; exactly the original may execute; distinct = (era, mutant count bucket, executions)"
}

func init() {
	scenarios["malformed"] = scenMalformed
	scenarios["dups"] = scenDups
	scenarios["sigmut"] = scenSigMut
}
