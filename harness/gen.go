package main

// Generators: keys, OPR / SPR record sets (graded by the real libraries), signed FAT-2 batches,
// factoid burns. Every random choice comes from one PRNG seeded by VERIF_SEED.

import (
	"crypto/ed25519"
	"crypto/sha256"
	"crypto/sha512"
	"encoding/hex"
	"encoding/json"
	"fmt"
	"math/rand"
	"strconv"
	"time"

	"github.com/Factom-Asset-Tokens/factom"
	"github.com/Factom-Asset-Tokens/factom/jsonlen"
	lxr "github.com/pegnet/LXRHash"
	"github.com/pegnet/pegnet/modules/factoidaddress"
	"github.com/pegnet/pegnet/modules/opr"
	"github.com/pegnet/pegnet/modules/testutils"
	"github.com/pegnet/pegnetd/config"
	"github.com/pegnet/pegnetd/fat/fat2"
)

func timeUnix(s int64) time.Time { return time.Unix(s, 0) }

func init() {
	os_setenv_lxr()
	testutils.SetTestLXR(lxr.Init(lxr.Seed, 8, lxr.HashSize, lxr.Passes))
}

type Key struct {
	Fs  factom.FsAddress
	Eth factom.EthSecret
	IsE bool
}

func (k Key) FA() factom.FAAddress {
	if k.IsE {
		return k.Eth.FAAddress()
	}
	return k.Fs.FAAddress()
}
func (k Key) Signer() factom.RCDSigner {
	if k.IsE {
		return k.Eth
	}
	return k.Fs
}

type Gen struct {
	R     *rand.Rand
	Seed  int64
	Users []Key    // ed25519 users first, then eth users
	Miners []string // 25 payout addresses (FA strings); the first len(Users) are the users
	MinerFA []factom.FAAddress
	Rates map[string]uint64 // current "market" rates by asset name (no p prefix)
}

func NewGen(seed int64, nFs, nEth int) *Gen {
	g := &Gen{R: rand.New(rand.NewSource(seed)), Seed: seed, Rates: map[string]uint64{}}
	rand.Seed(seed)
	for i := 0; i < nFs; i++ {
		var fs factom.FsAddress
		g.R.Read(fs[:])
		g.Users = append(g.Users, Key{Fs: fs})
	}
	for i := 0; i < nEth; i++ {
		var es factom.EthSecret
		g.R.Read(es[:])
		g.Users = append(g.Users, Key{Eth: es, IsE: true})
	}
	for i := 0; i < 25; i++ {
		var fa factom.FAAddress
		if i < len(g.Users) {
			fa = g.Users[i].FA()
		} else {
			g.R.Read(fa[:])
		}
		g.Miners = append(g.Miners, fa.String())
		g.MinerFA = append(g.MinerFA, fa)
	}
	for i, name := range opr.V5Assets {
		switch name {
		case "USD":
			g.Rates[name] = 1e8
		case "PEG":
			g.Rates[name] = 25e5 // 0.025 USD
		case "FCT":
			g.Rates[name] = 2e8
		case "XBT":
			g.Rates[name] = 9000e8
		case "KRW":
			g.Rates[name] = 80000 // low-priced assets: the 1 % band of the first SPR era
		case "INR":
			g.Rates[name] = 99000
		default:
			g.Rates[name] = uint64(1e6 + (i*7919)%997*1e6)
		}
	}
	return g
}

// OPRVersionAt mirrors the activation ladder so that generated records are valid by default.
func OPRVersionAt(a Acts, h uint32) uint8 {
	v := uint8(1)
	if h >= a.GradingV2 {
		v = 2
	}
	if h >= a.PegFloat {
		v = 3
	}
	if h >= a.V4 {
		v = 4
	}
	if h >= a.V20 {
		v = 5
	}
	return v
}

func SPRVersionAt(a Acts, h uint32) uint8 {
	v := uint8(5)
	if h >= a.SprSig {
		v = 6
	}
	if h >= a.V202 {
		v = 7
	}
	return v
}

func assetListFor(version uint8) []string {
	switch version {
	case 1:
		return opr.V1Assets
	case 4:
		return opr.V4Assets
	case 5:
		return opr.V5Assets
	}
	return opr.V2Assets
}

// OPRSet builds n records of the given version for height h that all carry the same rates
// (so the winner's rates are the generator's rates), paying the generator's miner addresses.
// mutate, if non-nil, may alter record i before it is hashed.
func (g *Gen) OPRSet(h uint32, version uint8, prev []string, n int, rates map[string]uint64, mutate func(i int, o interface{})) []factom.Entry {
	var out []factom.Entry
	want := testutils.WinnerAmt(version)
	pw := prev
	if len(pw) == 0 {
		pw = make([]string, want)
	}
	for i := 0; i < n; i++ {
		idx := i
		_, extids, content := g.randomOPR(version, int32(h), pw, func(o interface{}) {
			switch c := o.(type) {
			case *opr.V1Content:
				c.CoinbaseAddress = g.Miners[idx%len(g.Miners)]
				c.FactomDigitalID = fmt.Sprintf("miner%d", idx)
				for k := range c.Assets {
					name := k
					if name == "PNT" {
						name = "PEG"
					}
					if r, ok := rates[name]; ok {
						c.Assets[k] = float64(int64(float64(r)/1e4)) / 1e4
						if c.Assets[k] == 0 {
							c.Assets[k] = 0.0001
						}
					}
				}
			case *opr.V2Content:
				c.Address = g.Miners[idx%len(g.Miners)]
				c.ID = fmt.Sprintf("miner%d", idx)
				list := assetListFor(version)
				for k, name := range list {
					if r, ok := rates[name]; ok && k < len(c.Assets) {
						c.Assets[k] = r
					}
				}
			}
			if mutate != nil {
				mutate(idx, o)
			}
		})
		if content == nil {
			continue
		}
		out = append(out, MakeEntry(config.OPRChain, extids, content))
	}
	return out
}

// SPRSet builds one staking record per staker. stakerIDs are the 32-byte ids placed in
// ExtIDs[1]; signers sign the content (S2/S3); payout[i] is the address paid.
func (g *Gen) SPRSet(h uint32, version uint8, stakerIDs [][]byte, signers []factom.FsAddress, payout []string, rates map[string]uint64, mutate func(i int, c *opr.V2Content)) []factom.Entry {
	var out []factom.Entry
	for i := range stakerIDs {
		c := &opr.V2Content{Address: payout[i], Height: int32(h)}
		c.Assets = make([]uint64, len(opr.V5Assets))
		for k, name := range opr.V5Assets {
			c.Assets[k] = rates[name]
			if c.Assets[k] == 0 {
				c.Assets[k] = 1
			}
		}
		if mutate != nil {
			mutate(i, c)
		}
		content, err := c.Marshal()
		if err != nil {
			panic(err)
		}
		var ext2 []byte
		if version >= 6 {
			priv := signers[i].PrivateKey()
			pub := priv.Public().(ed25519.PublicKey)
			sig := ed25519.Sign(priv, content)
			ext2 = append(append([]byte{}, pub...), sig...)
		} else {
			ext2 = []byte{0}
		}
		out = append(out, MakeEntry(config.SPRChain, [][]byte{{version}, stakerIDs[i], ext2}, content))
	}
	return out
}

// SignBatch is fat103.Sign with an explicit time salt (deterministic).
func SignBatch(content []byte, salt int64, signers ...factom.RCDSigner) factom.Entry {
	chain := config.TransactionChain
	timeSalt := []byte(strconv.FormatInt(salt, 10))
	maxLen := jsonlen.Uint64(uint64(len(signers)))
	msg := make([]byte, maxLen+len(timeSalt)+32+len(content))
	i := maxLen
	i += copy(msg[i:], timeSalt)
	i += copy(msg[i:], chain[:])
	copy(msg[i:], content)
	ext := [][]byte{timeSalt}
	for id, s := range signers {
		idSalt := strconv.FormatUint(uint64(id), 10)
		start := maxLen - len(idSalt)
		copy(msg[start:], idSalt)
		hsh := sha512.Sum512(msg[start:])
		ext = append(ext, s.RCD(), s.Sign(hsh[:]))
	}
	return MakeEntry(chain, ext, content)
}

// Batch builds a signed FAT-2 entry for block h from transactions.
func (g *Gen) Batch(h uint32, signer Key, txs []fat2.Transaction) factom.Entry {
	b := fat2.TransactionBatch{Version: 1, Transactions: txs}
	content, err := json.Marshal(struct {
		Version      uint               `json:"version"`
		Transactions []fat2.Transaction `json:"transactions"`
	}{b.Version, b.Transactions})
	if err != nil {
		panic(err)
	}
	salt := EntryTime(h).Unix() + int64(g.R.Intn(600)) - 300
	return SignBatch(content, salt, signer.Signer())
}

func Transfer(from factom.FAAddress, t fat2.PTicker, outs ...fat2.AddressAmountTuple) fat2.Transaction {
	var sum uint64
	for _, o := range outs {
		sum += o.Amount
	}
	return fat2.Transaction{Input: fat2.TypedAddressAmountTuple{Address: from, Amount: sum, Type: t}, Transfers: outs}
}

func Conversion(from factom.FAAddress, t fat2.PTicker, amount uint64, to fat2.PTicker) fat2.Transaction {
	return fat2.Transaction{Input: fat2.TypedAddressAmountTuple{Address: from, Amount: amount, Type: t}, Conversion: to}
}

// Burn builds an FCT burn transaction of amount factoshis from addr.
func Burn(h uint32, addr factom.FAAddress, amount uint64, salt int) factom.FactoidTransaction {
	var burnRCD factom.Bytes32
	mr, _ := hex.DecodeString("37399721298d77984585040ea61055377039a4c3f3e2cd48c46ff643d50fd64f")
	copy(burnRCD[:], mr)
	return MakeFctTx(BlockTime(h).Add(time.Duration(salt)*time.Millisecond),
		[]factom.FactoidTransactionIO{{Amount: amount, Address: factom.Bytes32(addr)}}, nil,
		[]factom.FactoidTransactionIO{{Amount: 0, Address: burnRCD}})
}

// NearMissBurn builds a factoid transaction that is NOT a burn but misses the burn shape in
// exactly one respect (shape 0..6).
func NearMissBurn(h uint32, addr factom.FAAddress, amount uint64, salt int, shape int) factom.FactoidTransaction {
	var burnRCD, ec, other factom.Bytes32
	mr, _ := hex.DecodeString("37399721298d77984585040ea61055377039a4c3f3e2cd48c46ff643d50fd64f")
	copy(burnRCD[:], mr)
	for i := range ec {
		ec[i] = byte(0x40 + i + salt)
		other[i] = byte(0x90 + i + salt)
	}
	ts := BlockTime(h).Add(time.Duration(500+salt) * time.Millisecond)
	in := []factom.FactoidTransactionIO{{Amount: amount, Address: factom.Bytes32(addr)}}
	switch shape % 7 {
	case 0: // entry credits bought for the burn address: right address, non-zero amount
		return MakeFctTx(ts, in, nil, []factom.FactoidTransactionIO{{Amount: amount / 2, Address: burnRCD}})
	case 1: // zero-amount EC output to an ordinary EC key
		return MakeFctTx(ts, in, nil, []factom.FactoidTransactionIO{{Amount: 0, Address: ec}})
	case 2: // ordinary EC purchase
		return MakeFctTx(ts, in, nil, []factom.FactoidTransactionIO{{Amount: amount / 2, Address: ec}})
	case 3: // a burn output plus a second EC output
		return MakeFctTx(ts, in, nil, []factom.FactoidTransactionIO{{Amount: 0, Address: burnRCD}, {Amount: 0, Address: ec}})
	case 4: // a burn output plus an FCT output
		return MakeFctTx(ts, in, []factom.FactoidTransactionIO{{Amount: amount / 3, Address: other}}, []factom.FactoidTransactionIO{{Amount: 0, Address: burnRCD}})
	case 5: // two inputs
		return MakeFctTx(ts, append(in, factom.FactoidTransactionIO{Amount: 7, Address: other}), nil, []factom.FactoidTransactionIO{{Amount: 0, Address: burnRCD}})
	default: // plain FCT payment, no EC output
		return MakeFctTx(ts, in, []factom.FactoidTransactionIO{{Amount: amount / 2, Address: other}}, nil)
	}
}

// IsBurn is the specification of an FCT burn: exactly one FCT input, no FCT output, exactly one
// EC output, to the burn address, of amount zero.
func IsBurn(t factom.FactoidTransaction) bool {
	mr, _ := hex.DecodeString("37399721298d77984585040ea61055377039a4c3f3e2cd48c46ff643d50fd64f")
	return len(t.FCTInputs) == 1 && len(t.FCTOutputs) == 0 && len(t.ECOutputs) == 1 &&
		hex.EncodeToString(t.ECOutputs[0].Address[:]) == hex.EncodeToString(mr) && t.ECOutputs[0].Amount == 0
}

func shaHex(b []byte) string { s := sha256.Sum256(b); return hex.EncodeToString(s[:]) }

var _ = factoidaddress.Valid

func factomFA(s string) (factom.FAAddress, error) { return factom.NewFAAddress(s) }


var genLXR = lxr.Init(lxr.Seed, 8, lxr.HashSize, lxr.Passes)

// randomOPR is testutils.RandomOPRWithFieldsAndModify with every random choice drawn from the
// generator's own PRNG (the library version uses the global math/rand source, which the daemon's
// JSON-RPC client also draws from, so chains would not be reproducible from the seed).
func (g *Gen) randomOPR(version uint8, dbht int32, prevWinners []string, modify func(o interface{})) (entryhash []byte, extids [][]byte, content []byte) {
	var cb factom.FAAddress
	g.R.Read(cb[:])
	coinbase := cb.String()
	id := make([]byte, 8)
	g.R.Read(id)
	entryhash = make([]byte, 32)
	g.R.Read(entryhash)
	extids = make([][]byte, 3)
	extids[0] = make([]byte, 8)
	g.R.Read(extids[0])
	var io opr.OPR
	switch version {
	case 1:
		o := new(opr.V1Content)
		o.WinPreviousOPR = prevWinners
		o.Dbht = dbht
		o.CoinbaseAddress = coinbase
		o.FactomDigitalID = fmt.Sprintf("%x", id)
		o.Assets = make(opr.V1AssetList)
		for _, asset := range opr.V1Assets {
			o.Assets[asset] = float64(int64(g.R.Float64()*1e4)) / 1e4
			if o.Assets[asset] == 0 {
				o.Assets[asset] = 1
			}
		}
		extids[2] = []byte{1}
		io = o
	case 2, 3, 4, 5:
		o := new(opr.V2Content)
		o.Winners = make([][]byte, len(prevWinners))
		for i := range o.Winners {
			o.Winners[i], _ = hex.DecodeString(prevWinners[i])
		}
		o.Height = dbht
		o.Address = coinbase
		o.ID = fmt.Sprintf("%x", id)
		assetList := opr.V2Assets
		if version == 4 {
			assetList = opr.V4Assets
		}
		if version == 5 {
			assetList = opr.V5Assets
		}
		o.Assets = make([]uint64, len(assetList))
		for i := range assetList {
			o.Assets[i] = g.R.Uint64() % 100000 * 1e8
			if o.Assets[i] == 0 {
				o.Assets[i] = 1e8
			}
		}
		extids[2] = []byte{version}
		io = o
	default:
		return nil, nil, nil
	}
	if modify != nil {
		modify(io)
	}
	content, err := io.Marshal()
	if err != nil {
		return nil, nil, nil
	}
	oprhash := sha256.Sum256(content)
	hsh := genLXR.Hash(append(oprhash[:], extids[0]...))
	extids[1] = hsh[:8]
	return entryhash, extids, content
}

type factomFs = factom.FsAddress
