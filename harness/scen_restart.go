package main

// C09: restart independence. One chain (PIP-10 averaging active, ungraded blocks inside the
// averaging window, conversions priced by the averages) is synced once continuously and then
// again with clean restarts at chosen heights; both runs are in lock-step with the Lean model
// (whose `restart` drops the in-memory cache exactly as a new process does). The final ledgers
// must be equal.

import (
	"github.com/Factom-Asset-Tokens/factom"
	"github.com/pegnet/pegnetd/node"
	"fmt"
	"math/rand"

	"github.com/pegnet/pegnetd/fat/fat2"
)

func restartActs() Acts {
	// everything up to 2.0.2 activates immediately after the start; PIP-10 from height 12
	return Acts{Pegnet: 0, GradingV2: 1, TxConv: 2, PegPricing: 2, OneWayFCT: 3, ConvLimit: 3, PegFloat: 3, RCDE: 4, V4: 4,
		V20: 5, DevRewards: 200, SprSig: 200, OneWaySmall: 210, V202: 210, V204: 300, V204Burn: 310, PIP10: 12}
}

// restartChainZeroAt: heights at which the SPR set quotes the named asset at twice the OPR price
// (from 2.0.2 on the asset is then recorded at 0 for that height); with it the chain carries SPR
// sets from 2.0 on. nil for the plain OPR-only chain.
var restartChainZeroAt map[uint32]string

// buildRestartChain produces the chain on a live lock-step run: trending rates, an ungraded
// block every few heights, and conversions out of the trending assets (so the average binds).
func buildRestartChain(rep *Report, s Setup, g *Gen, length uint32, gaps map[uint32]bool) ([]*BlockSpec, []string, bool) {
	run, err := NewRun(s)
	if err != nil {
		rep.Note("infrastructure: %v", err)
		return nil, nil, false
	}
	defer run.Close()
	run.FullEvery = 1000
	w := &World{G: g, Run: run, S: s, Rep: rep}
	defer func() {
		if w.ro != nil {
			w.ro.Close()
		}
	}()
	trend := []string{"EUR", "JPY", "XBT", "ETH"}
	var final []string
	for h := uint32(1); h <= length; h++ {
		for i, name := range trend {
			v := g.Rates[name]
			if i%2 == 0 {
				g.Rates[name] = v + v/20
			} else {
				g.Rates[name] = v - v/25
			}
		}
		b := &BlockSpec{Height: h, Time: BlockTime(h)}
		ver := OPRVersionAt(s.Acts, h)
		if !gaps[h] {
			n := 25
			if ver == 1 {
				n = 10
			}
			b.OPR = g.OPRSet(h, ver, w.LastShortHashes(h), n, g.Rates, nil)
		}
		if restartChainZeroAt != nil && h >= s.Acts.V20 && !gaps[h] {
			if top := w.TopPEG(100); len(top) > 0 {
				ids := make([][]byte, 25)
				signers := make([]factom.FsAddress, 25)
				payout := make([]string, 25)
				for i := range ids {
					ids[i] = top[i%len(top)]
					signers[i] = g.Users[0].Fs
					payout[i] = g.Miners[i%len(g.Miners)]
				}
				rates := map[string]uint64{}
				for k, v := range g.Rates {
					rates[k] = v
				}
				if name, ok := restartChainZeroAt[h]; ok {
					rates[name] = rates[name] * 2
					rep.Count("restart:zero-quote:" + name)
				}
				b.SPR = g.SPRSet(h, SPRVersionAt(s.Acts, h), ids, signers, payout, rates, nil)
			}
		}
		if h < s.Acts.V20+2 {
			for i, u := range g.Users {
				b.FCT = append(b.FCT, Burn(h, u.FA(), 500e8, i))
			}
		}
		if h >= s.Acts.V20 {
			// each user converts part of a trending asset (or pFCT into one) every block
			for ui, u := range g.Users {
				from := u.FA()
				var tx fat2.Transaction
				name := trend[(int(h)+ui)%len(trend)]
				tk := fat2.StringToTicker("p" + name)
				if bal := w.Balance(from, tk); bal > 1000 && g.R.Intn(2) == 0 {
					tx = Conversion(from, tk, bal/3, fat2.PTickerUSD)
				} else if bal := w.Balance(from, fat2.PTickerFCT); bal > 1e8 {
					tx = Conversion(from, fat2.PTickerFCT, bal/10, tk)
				} else if bal := w.Balance(from, fat2.PTickerUSD); bal > 1000 {
					tx = Conversion(from, fat2.PTickerUSD, bal/4, tk)
				} else {
					continue
				}
				b.TX = append(b.TX, g.Batch(h, u, []fat2.Transaction{tx}))
			}
		}
		run.ForceFull = h == length
		res := run.Step(b)
		rep.Traces++
		if res.Diff != "" || !res.ImplOK {
			path := WriteReplay(rep.Property, "restart-ref", Replay{Property: rep.Property, Scenario: "restart", Seed: g.Seed, Setup: s,
				What: fmt.Sprintf("reference run: height %d", h), Detail: []string{res.Diff, res.ImplMsg, res.ModelAns}, Blocks: ChainJSON(run.Chain)})
			if res.Diff != "" {
				rep.Disagree("lockstep:restart-ref", res.Diff, path)
				if res.ImplOK {
					// the search for a failing input goes on: the chain is completed by the
					// implementation alone, and the restarted runs are compared with this run
					run.NoModel = true
					final = res.Dump
					continue
				}
			} else {
				rep.Disagree("reference:stuck:"+res.ImplClass, fmt.Sprintf("h=%d %s", h, res.ImplMsg), path)
			}
			return nil, nil, false
		}
		final = res.Dump
	}
	return run.Chain, final, true
}

// replayWithRestarts syncs the stored chain on a fresh daemon + model, restarting both after
// the heights in at; returns the final dump.
func replayWithRestarts(rep *Report, s Setup, chain []*BlockSpec, at map[uint32]bool) ([]string, bool) {
	d, ok, _ := replayWithRestartsX(rep, s, chain, at)
	return d, ok
}

// replayWithRestartsX also reports whether the model followed the implementation through the
// whole restarted run (then a difference from the continuous run is the restart dependence the
// model itself has — the averaging cache); after a disagreement the run goes on without the
// model so that the final ledgers can still be compared.
func replayWithRestartsX(rep *Report, s Setup, chain []*BlockSpec, at map[uint32]bool) ([]string, bool, bool) {
	explained := true
	run, err := NewRun(s)
	if err != nil {
		rep.Note("infrastructure: %v", err)
		return nil, false, false
	}
	defer run.Close()
	run.FullEvery = 1000
	var final []string
	for i, b := range chain {
		nb := &BlockSpec{Height: b.Height, Time: b.Time, OPR: b.OPR, SPR: b.SPR, TX: b.TX, FCT: b.FCT}
		run.ForceFull = i == len(chain)-1
		res := run.Step(nb)
		rep.Traces++
		if res.Diff != "" || !res.ImplOK {
			path := WriteReplay(rep.Property, "restart-run", Replay{Property: rep.Property, Scenario: "restart", Setup: s,
				What: fmt.Sprintf("run with restarts %v: height %d", keys(at), b.Height), Detail: []string{res.Diff, res.ImplMsg, res.ModelAns}, Blocks: ChainJSON(chain)})
			if res.Diff != "" && res.ImplOK {
				rep.Disagree("lockstep:restart-run", res.Diff, path)
				explained = false
				run.NoModel = true // carry on with the implementation alone
			} else {
				if res.Diff != "" {
					rep.Disagree("lockstep:restart-run", res.Diff, path)
				}
				rep.Violate("restart:stuck", fmt.Sprintf("with restarts at %v the daemon cannot apply height %d: %s", keys(at), b.Height, res.ImplMsg), path)
				return nil, false, false
			}
		}
		final = res.Dump
		if at[b.Height] {
			if err := run.RestartDaemon(); err != nil {
				rep.Violate("restart:refused", fmt.Sprintf("restart after height %d refused: %v", b.Height, err), "")
				return nil, false, false
			}
		}
	}
	return final, true, explained
}

func keys(m map[uint32]bool) []uint32 {
	var out []uint32
	for k := range m {
		out = append(out, k)
	}
	for i := range out {
		for j := i + 1; j < len(out); j++ {
			if out[j] < out[i] {
				out[i], out[j] = out[j], out[i]
			}
		}
	}
	return out
}

func scenRestart(rep *Report, tier string, seed int64) {
	r := rand.New(rand.NewSource(seed))
	g := NewGen(seed, 3, 0)
	s := Setup{Acts: restartActs(), AvgPeriod: 8, SyncVersion: mainnetSyncVersion}
	length := uint32(44)
	gaps := map[uint32]bool{17: true, 18: true, 27: true, 35: true}
	if seed%2 == 0 {
		gaps = map[uint32]bool{15: true, 24: true, 25: true, 26: true, 33: true}
	}
	chain, refDump, ok := buildRestartChain(rep, s, g, length, gaps)
	if !ok {
		return
	}
	var sets []map[uint32]bool
	single := []uint32{13, 16, 18, 19, 20, 22, 28, 30, 36, 40}
	if tier == "thorough" {
		single = nil
		for h := uint32(6); h < length; h++ {
			single = append(single, h)
		}
	}
	for _, h := range single {
		sets = append(sets, map[uint32]bool{h: true})
	}
	nr := 3
	if tier == "thorough" {
		nr = 25
	}
	for i := 0; i < nr; i++ {
		m := map[uint32]bool{}
		for j := 0; j < 1+r.Intn(5); j++ {
			m[uint32(6+r.Intn(int(length)-7))] = true
		}
		sets = append(sets, m)
	}
	for _, at := range sets {
		dump, ok, explained := replayWithRestartsX(rep, s, chain, at)
		if !ok {
			continue
		}
		afterGap := false
		for h := range at {
			for g := range gaps {
				// the reload after a restart at h prices the next rated block over the height window
				// ending at the last rated height (about h); an ungraded height g inside it is
				// what the count-trimmed cache of the continuous process does not have
				if h+1 >= g && h <= g+uint32(s.AvgPeriod) {
					afterGap = true
				}
			}
		}
		rep.Case(fmt.Sprintf("restarts=%v", keys(at)), true)
		rep.Count(fmt.Sprintf("restart-set:afterGap=%v", afterGap))
		if diff := FirstDiff(dropBackfill(dump), dropBackfill(refDump)); diff != "" {
			path := WriteReplay(rep.Property, "restart", Replay{Property: rep.Property, Scenario: "restart", Seed: seed, Setup: s,
				What:   fmt.Sprintf("the ledger after syncing with clean restarts after heights %v differs from the continuous run", keys(at)),
				Detail: []string{diff, fmt.Sprintf("ungraded heights: %v", keys(gaps))}, Blocks: ChainJSON(chain),
				Extra:  map[string]interface{}{"restart_after": keys(at)}})
			sig := "restart:ledger-differs"
			if afterGap && explained {
				// the model, restarted at the same heights, computes the same different ledger:
				// this is the averaging cache's documented count-versus-window behaviour
				sig = "restart:average-cache-after-ungraded-block"
			}
			rep.Violate(sig, fmt.Sprintf("restarts after %v: %s", keys(at), diff), path)
		}
		if len(rep.Samples) < 3 {
			rep.Sample(map[string]interface{}{"restart_after": keys(at), "ungraded": keys(gaps), "chain_length": length})
		}
	}
	eraRestarts(rep, tier, seed)
	zeroQuoteRestarts(rep, tier, seed)
	rep.Rule = "one evaluation = the whole chain synced by the real daemon with clean restarts (fresh NewPegnetd on the same file) after a set of heights, in lock-step with the model, final ledger compared with the continuous run; distinct = distinct restart sets"
}

func init() { scenarios["restart"] = scenRestart }

// zeroQuoteRestarts: the 2.0.2 band rule records an asset at 0 when the winning OPR and SPR
// disagree by more than 25 %. A chain WITHOUT ungraded blocks (so that the documented
// count-versus-window difference of the averaging cache plays no part) in which two of the
// assets the users keep converting are quoted at 0 at some heights, synced continuously and with
// restarts placed inside the averaging window after those heights: the ledgers must be equal.
func zeroQuoteRestarts(rep *Report, tier string, seed int64) {
	g := NewGen(seed+311, 3, 0)
	a := restartActs()
	a.DevRewards, a.SprSig, a.OneWaySmall, a.V202 = 7, 7, 8, 8
	s := Setup{Acts: a, AvgPeriod: 8, SyncVersion: mainnetSyncVersion}
	length := uint32(40)
	restartChainZeroAt = map[uint32]string{16: "EUR", 17: "XBT", 27: "JPY", 28: "EUR"}
	defer func() { restartChainZeroAt = nil }()
	chain, refDump, ok := buildRestartChain(rep, s, g, length, map[uint32]bool{})
	if !ok {
		return
	}
	sets := []map[uint32]bool{{18: true}, {20: true}, {23: true}, {29: true, 33: true}}
	if tier == "thorough" {
		sets = nil
		for h := uint32(14); h < length-2; h++ {
			sets = append(sets, map[uint32]bool{h: true})
		}
	}
	for _, at := range sets {
		dump, ok, _ := replayWithRestartsX(rep, s, chain, at)
		if !ok {
			continue
		}
		rep.Case(fmt.Sprintf("zero-quote-restarts=%v", keys(at)), true)
		rep.Count("restart-set:zero-quote")
		if diff := FirstDiff(dropBackfill(dump), dropBackfill(refDump)); diff != "" {
			path := WriteReplay(rep.Property, "restart-zero-quote", Replay{Property: rep.Property, Scenario: "restart", Seed: seed, Setup: s,
				What:   fmt.Sprintf("chain with zero-quoted assets and no ungraded block: the ledger after clean restarts after heights %v differs from the continuous run", keys(at)),
				Detail: []string{diff}, Blocks: ChainJSON(chain), Extra: map[string]interface{}{"restart_after": keys(at)}})
			rep.Violate("restart:ledger-differs:zero-quote-chain", fmt.Sprintf("restarts after %v: %s", keys(at), diff), path)
		}
	}
}

// eraRestarts: restart independence across the rule changes. An era-crossing chain (all entry
// kinds, transfers to the special addresses before and after their activations; PIP-10 out of
// reach so that the averaging cache plays no part) is synced continuously and with restarts
// placed right before the activation heights; anything a running daemon carries in memory from
// one era into the next shows as a different ledger.
func eraRestarts(rep *Report, tier string, seed int64) {
	g := NewGen(seed+77, 5, 2)
	a := ledgerActs(g.R, int(seed))
	a.PIP10 = 100000
	s := Setup{Acts: a, AvgPeriod: 8, SyncVersion: mainnetSyncVersion}
	last := a.V204Burn + 4
	run, err := NewRun(s)
	if err != nil {
		rep.Note("infrastructure: %v", err)
		return
	}
	run.FullEvery = 1000
	w := &World{G: g, Run: run, S: s, Rep: rep}
	oldBurn, _ := factomFA(node.GlobalOldBurnAddress)
	newBurn, _ := factomFA(node.GlobalBurnAddress)
	mintA, _ := factomFA(node.GlobalMintAddress)
	var final []string
	okRef := true
	for h := a.Pegnet + 1; h <= last; h++ {
		b := w.BuildBlock(h)
		if h > a.TxConv+3 && h%3 == 0 {
			u := g.Users[int(h/3)%len(g.Users)]
			if !(u.IsE && h < a.RCDE) {
				for _, t := range w.NonZeroAssets(u.FA()) {
					if bal := w.Balance(u.FA(), t); bal > 100 {
						dst := []factom.FAAddress{oldBurn, newBurn, mintA}[int(h/3)%3]
						b.TX = append(b.TX, g.Batch(h, u, []fat2.Transaction{Transfer(u.FA(), t, fat2.AddressAmountTuple{Address: dst, Amount: bal / 20})}))
						break
					}
				}
			}
		}
		run.ForceFull = h == last
		res := run.Step(b)
		rep.Traces++
		if res.Diff != "" {
			path := WriteReplay(rep.Property, "restart-era-ref", Replay{Property: rep.Property, Scenario: "restart", Seed: seed, Setup: s,
				What: fmt.Sprintf("era chain, reference run: height %d", h), Detail: []string{res.Diff, res.ImplMsg, res.ModelAns}, Blocks: ChainJSON(run.Chain)})
			rep.Disagree("lockstep:restart-era-ref", res.Diff, path)
			run.NoModel = true
		}
		if !res.ImplOK {
			if err := run.RecoverFrom(res); err != nil {
				okRef = false
				break
			}
			run.Chain = run.Chain[:len(run.Chain)-1]
			if r2 := run.Step(&BlockSpec{Height: h, Time: BlockTime(h)}); !r2.ImplOK {
				okRef = false
				break
			} else {
				res = r2
			}
		}
		final = res.Dump
	}
	chain := run.Chain
	if w.ro != nil {
		w.ro.Close()
	}
	run.Close()
	if !okRef || final == nil {
		rep.Count("era-chain-wedged")
		return
	}
	sets := []map[uint32]bool{
		{a.V20 - 1: true, a.V202 - 1: true, a.V204Burn - 1: true},
		{a.ConvLimit - 1: true, a.DevRewards - 1: true, a.V204 - 1: true},
	}
	if tier == "thorough" {
		sets = append(sets, map[uint32]bool{a.TxConv: true, a.V4 - 1: true, a.V20: true, a.V202: true},
			map[uint32]bool{a.PegPricing - 1: true, a.OneWayFCT - 1: true, a.DevRewards: true, a.V204: true})
		for i := 0; i < 4; i++ {
			m := map[uint32]bool{}
			for j := 0; j < 4; j++ {
				m[a.Pegnet+2+uint32(g.R.Intn(int(last-a.Pegnet-3)))] = true
			}
			sets = append(sets, m)
		}
	}
	for _, at := range sets {
		dump, ok, _ := replayWithRestartsX(rep, s, chain, at)
		if !ok {
			continue
		}
		rep.Case(fmt.Sprintf("era-restarts=%v", keys(at)), true)
		rep.Count("restart-set:era")
		if diff := FirstDiff(dropBackfill(dump), dropBackfill(final)); diff != "" {
			path := WriteReplay(rep.Property, "restart-era", Replay{Property: rep.Property, Scenario: "restart", Seed: seed, Setup: s,
				What:   fmt.Sprintf("era-crossing chain: the ledger after syncing with clean restarts after heights %v differs from the continuous run", keys(at)),
				Detail: []string{diff}, Blocks: ChainJSON(chain), Extra: map[string]interface{}{"restart_after": keys(at)}})
			rep.Violate("restart:ledger-differs:era-chain", fmt.Sprintf("restarts after %v: %s", keys(at), diff), path)
		}
	}
}
