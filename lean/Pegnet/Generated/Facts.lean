import Pegnet.Basic
/-! REGENERATED from /repo by /verif/extract on every run. Do not edit. -/
namespace Pegnet.Generated

def activationsComplete : Bool := true

def activations : Activations :=
  { pegnet := 206421, gradingV2 := 210330, txConv := 213237, pegPricing := 214287, oneWayFCT := 220346, convLimit := 222270,
    pegFloat := 222270, rcde := 231620, v4 := 231620, v20 := 258796, devRewards := 260118, sprSig := 260118, oneWaySmall := 274036,
    v202 := 274036, v204 := 288878, v204Burn := 294206, pip10 := 295190 }

def setAllActivationsCovers : List String := ["PegnetActivation", "GradingV2Activation", "TransactionConversionActivation", "PEGPricingActivation", "OneWaypFCTConversions", "PegnetConversionLimitActivation", "PEGFreeFloatingPriceActivation", "fat2.Fat2RCDEActivation", "V4OPRUpdate", "V20HeightActivation", "V20DevRewardsHeightActivation", "OneWaySmallAssetsConversions", "SprSignatureActivation", "V202EnhanceActivation", "V204EnhanceActivation", "V204BurnMintedTokenActivation", "PIP10AverageActivation"]

def tickers : List String := ["PEG", "pUSD", "pEUR", "pJPY", "pGBP", "pCAD", "pCHF", "pINR", "pSGD", "pCNY", "pHKD", "pKRW", "pBRL", "pPHP", "pMXN", "pXAU", "pXAG", "pXBT", "pETH", "pLTC", "pRVN", "pXBC", "pFCT", "pBNB", "pXLM", "pADA", "pXMR", "pDASH", "pZEC", "pDCR", "pAUD", "pNZD", "pSEK", "pNOK", "pRUB", "pZAR", "pTRY", "pEOS", "pLINK", "pATOM", "pBAT", "pXTZ", "pHBAR", "pNEO", "pCRO", "pETC", "pONT", "pDOGE", "pVET", "pHT", "pALGO", "pDGB", "pAED", "pARS", "pTWD", "pRWF", "pKES", "pUGX", "pTZS", "pBIF", "pETB", "pNGN"]

def tickerConsts : List String := ["PTickerInvalid", "PTickerPEG", "PTickerUSD", "PTickerEUR", "PTickerJPY", "PTickerGBP", "PTickerCAD", "PTickerCHF", "PTickerINR", "PTickerSGD", "PTickerCNY", "PTickerHKD", "PTickerKRW", "PTickerBRL", "PTickerPHP", "PTickerMXN", "PTickerXAU", "PTickerXAG", "PTickerXBT", "PTickerETH", "PTickerLTC", "PTickerRVN", "PTickerXBC", "PTickerFCT", "PTickerBNB", "PTickerXLM", "PTickerADA", "PTickerXMR", "PTickerDASH", "PTickerZEC", "PTickerDCR", "PTickerAUD", "PTickerNZD", "PTickerSEK", "PTickerNOK", "PTickerRUB", "PTickerZAR", "PTickerTRY", "PTickerEOS", "PTickerLINK", "PTickerATOM", "PTickerBAT", "PTickerXTZ", "PTickerHBAR", "PTickerNEO", "PTickerCRO", "PTickerETC", "PTickerONT", "PTickerDOGE", "PTickerVET", "PTickerHT", "PTickerALGO", "PTickerDGB", "PTickerAED", "PTickerARS", "PTickerTWD", "PTickerRWF", "PTickerKES", "PTickerUGX", "PTickerTZS", "PTickerBIF", "PTickerETB", "PTickerNGN", "PTickerMax"]

def tickerMax : Nat := 63

def oneWaySet : List Nat := [1, 30, 52, 48, 43, 47, 21, 41, 51, 60, 61, 57, 62, 56, 59, 58]
def oneWayNames : List String := ["PEG", "pDCR", "pDGB", "pDOGE", "pHBAR", "pONT", "pRVN", "pBAT", "pALGO", "pBIF", "pETB", "pKES", "pNGN", "pRWF", "pTZS", "pUGX"]
def oneWayGuard : String := "currentHeight >= config.OneWaySmallAssetsConversions"

def perBlock : Nat := 500000000000
def perBlockMiners : Nat := 500000000000
def perBlockPastMiners : Nat := 400000000000
def perBlockAssetHolders : Nat := 450000000000
def perBlockStakers : Nat := 450000000000
def perBlockDevelopers : Nat := 200000000000
def snapshotRate : Nat := 144
def bankBaseAmount : Nat := 500000000000
def averagePeriod : Nat := 288
def queryLimit : Nat := 50
def averageRequiredExpr : String := "AveragePeriod / 2"

def devPctIntegral : Bool := true
def devs : List (String × Nat) := [("FA2i9WZqJnaKbJxDY2AZdVgewE28uCcSwoFt8LJCMtGCC7tpCa2n", 10), ("FA37cGXKWMtf2MmHy3n1rMCYeLVuR5MpDaP4VXVeFavjJCJLYYez", 19), ("FA2wDRieaBrWeZHVuXXWUHY6t9nKCVCCKAMS5xknLUExuVAq3ziS", 9), ("FA3LDEA5fcskV6ZoFpKE84qPcjd7GYjEnswGHMZXL1V9d14wmgh3", 9), ("FA381EygeEXjZzB6hNvxbE4oSUzHZMfvGByMZoW5UrG1gHEKJcNK", 8), ("FA2DxkaTx1k2oGfbTqvwVMScSHHac7JFRiBjRngjRnqQpeBxsLhA", 8), ("FA2Ersb227gn7eWJ2HPsHZ5QqxfMBZhSjwixQ44dAS17CtRXSDRU", 8), ("FA2eFEVUzTQZxNp3LYYgjPaaHUfGmuvShhtBdGB2BBWMeByPCmJy", 8), ("FA2T72oxBxXvnujNdsVUshqFM2qV1W4nJy33nkrpxbYQV8rFbUPP", 5), ("FA2cEaq1GdGfFjhymiTEzW24DocZFZHNBqe9qkT18YPaL5ZzsgRi", 5), ("FA2YhZBZbc4V858ao7dJuAqRC4iwA3MrbZs7BHUPK7Mq19yYdMwZ", 3), ("FA3PYuvrsDvkhnekokVNrgLn7JiL5pChSBTtR9gZB1mVGFVB7JRD", 3), ("FA2Wy7AzeoBuaXYnGu67xa5zdNkmqTbPryUgpy7qVPvj46GRZkep", 2), ("FA2a2nXgkBg7pL5wrgm99rLZDGFs2T8jfTgMuia6ep8ZMkVtPe8E", 3)]

def mint : List (Nat × Nat) := [(1, 334509613), (2, 3184409), (12, 118), (16, 1), (17, 599), (18, 2), (19, 5476), (20, 2004), (21, 13124813), (22, 243), (24, 3461), (25, 45892), (26, 1414096), (27, 682), (28, 6001), (29, 2696), (38, 2059), (39, 9110), (40, 101), (44, 2), (45, 164), (46, 5), (49, 22400000), (50, 5), (30, 1049), (31, 9), (34, 59), (42, 11117), (48, 9870), (51, 457602), (52, 51175)]

def burnAddress : String := "EC2BURNFCT2PEGNETooo1oooo1oooo1oooo1oooo1oooo19wthin"
def globalBurnAddress : String := "FA2BURNBABYBURNoooooooooooooooooooooooooooooooDGvNXy"
def globalOldBurnAddress : String := "FA1y5ZGuHSLmf2TqNf6hVMkPiNGyQpQDTFJvDLRkKQaoPo4bmbgu"
def globalMintAddress : String := "FA3j16WPCiqsAFHVZcEoL85Khh5RhPCNe6PWHBKgUxrx8MAnbNoy"
def burnRCD : String := "37399721298d77984585040ea61055377039a4c3f3e2cd48c46ff643d50fd64f"

def syncVersion : Int := 2
def forks : List (Nat × Int) := [(0, (-1)), (231620, 1), (258796, 2)]

def rejectInsufficient : Int := -1
def rejectPFCTOneWay : Int := -3
def rejectZeroRates : Int := -4
def rejectSmallOneWay : Int := -5
def rejectMap : List (String × String) := [("InsufficientBalanceErr", "InsufficientBalanceErrInt"), ("PFCTOneWayError", "PFCTOneWayErrorInt"), ("PSMALLOneWayError", "PSMALLOneWayErrorInt"), ("ZeroRatesError", "ZeroRatesErrorInt")]

def oprLadderBase : Option Nat := some 1
def oprLadderRungs : List (String × Nat) := [("GradingV2Activation", 2), ("PEGFreeFloatingPriceActivation", 3), ("V4OPRUpdate", 4), ("V20HeightActivation", 5)]
def sprLadderBase : Option Nat := some 5
def sprLadderRungs : List (String × Nat) := [("V20HeightActivation", 5), ("SprSignatureActivation", 6), ("V202EnhanceActivation", 7)]

def bands : List (String × String) := [("GetAssetRates:tol", "0.1"), ("GetAssetRates:tol:override", "0.25"), ("GetAssetRates:guard", "height >= config.V202EnhanceActivation"), ("GetAssetRatesV0:tol", "0.01"), ("GetAssetRatesV0:tol:override", "0.001"), ("GetAssetRatesV0:threshold", "sprRate >= 100000")]

def poolWrites : List String := []

def poolReadsSyncPath : List String := ["node/pegnet/addresses.go:IsIncludedTopPEGAddress:pool:SELECT:p.DB", "node/pegnet/addresses.go:SelectBalances:pool-arg:p.selectBalances", "node/pegnet/addresses.go:SelectIssuances:pool:SELECT:p.DB", "node/pegnet/grading.go:SelectPreviousWinners:pool:SELECT:p.DB", "node/pegnet/grading.go:SelectRates:pool:SELECT:p.DB", "node/pegnet/txbatchholding.go:SelectTransactionBatchesInHoldingAtHeight:pool:SELECT:p.DB"]

def discardedErrors : List String := ["node/sync.go:DBlockSync:NullifyBurnAddress", "node/sync.go:DBlockSync:NullifyBurnAddress"]

def logOnlyErrors : List String := ["node/opr.go:Grade:err != nil", "node/spr.go:GradeS:err != nil", "node/sync.go:NullifyMintedTokens:err != nil", "node/sync.go:NullifyBurnAddress:err != nil", "node/sync.go:NullifyBurnAddress:err != nil", "node/sync.go:NullifyBurnAddress:err != nil", "node/sync.go:NullifyBurnAddress:err != nil", "node/sync.go:recordBatch:err != nil"]

def blankAssignedErrors : List String := ["node/conversions/conversionlimit.go:Refund:Convert", "node/conversions/conversionlimit.go:Refund:Convert", "node/sync.go:recordPegnetRequests:Convert"]

def mapRanges : List String := ["node/average.go:GetPegNetRateAverages:ratesOverPeriod", "node/average.go:GetPegNetRateAverages:rates", "node/average.go:GetPegNetRateAverages:ratesOverPeriod", "node/average.go:GetPegNetRateAverages:ratesOverPeriod", "node/conversions/conversionlimit.go:Payouts:s.ConversionRequests", "node/conversions/conversionlimit.go:Payouts:s.ConversionRequests", "node/conversions/conversionlimit.go:Payouts:s.ConversionRequests", "node/pegnet/txhistory.go:InsertStakingCoinbase:payouts", "node/sync.go:SnapshotPayouts:staked", "node/sync.go:SnapshotPayouts:set.Payouts()", "node/sync.go:recordPegnetRequests:pegPayouts"]

def sorts : List String := ["node/sync.go:SnapshotPayouts:sort.Slice"]

def timeNow : List String := ["node/pegnet/admin.go:markHeightSyncedVersion:time.Now", "node/sync.go:DBlockSync:time.Now", "node/sync.go:DBlockSync:time.Now", "node/sync.go:DBlockSync:time.Now", "node/sync.go:SnapshotPayouts:time.Now", "node/sync.go:DevelopersPayouts:time.Now"]

def packageVars : List String := ["fat/fat2/activations.go:Fat2RCDEActivation:uint32", "fat/fat2/pticker.go:validPTickerStrings:[]string", "fat/fat2/pticker.go:validPTickers:func", "fat/fat2/transaction.go:coinbase:factom.FsAddress", "node/average.go:AveragePeriod:uint64", "node/average.go:AverageRequired:AveragePeriod / 2", "node/burns.go:BurnAddress:\"EC2BURNFCT2PEGNETooo1oooo1oooo1oooo1oooo1oooo19wthin\"", "node/burns.go:BurnRCD:[32]byte", "node/burns.go:GlobalBurnAddress:\"FA2BURNBABYBURNoooooooooooooooooooooooooooooooDGvNXy\"", "node/burns.go:GlobalMintAddress:\"FA3j16WPCiqsAFHVZcEoL85Khh5RhPCNe6PWHBKgUxrx8MAnbNoy\"", "node/burns.go:GlobalOldBurnAddress:\"FA1y5ZGuHSLmf2TqNf6hVMkPiNGyQpQDTFJvDLRkKQaoPo4bmbgu\"", "node/devs.go:DeveloperRewardAddreses:[]DevReward", "node/mint.go:MintTotalSupplyMap:[]MintSupply", "node/pegnet/addresses.go:addressSelectCols:``", "node/pegnet/addresses.go:snapshotMinSelectCols:``", "node/pegnet/admin.go:Hardforks:[]ForkEvent", "node/pegnet/admin.go:PegnetdSyncVersion:2", "node/pegnet/errors.go:InsufficientBalanceErr:errors.New", "node/pegnet/errors.go:InsufficientBalanceErrInt:int64", "node/pegnet/errors.go:PFCTOneWayError:errors.New", "node/pegnet/errors.go:PFCTOneWayErrorInt:int64", "node/pegnet/errors.go:PSMALLOneWayError:errors.New", "node/pegnet/errors.go:PSMALLOneWayErrorInt:int64", "node/pegnet/errors.go:ZeroRatesError:errors.New", "node/pegnet/errors.go:ZeroRatesErrorInt:int64", "srv/errors.go:ErrorAddressNotFound:jrpc.NewError", "srv/errors.go:ErrorInvalidTransaction:jrpc.NewError", "srv/errors.go:ErrorNoEC:jrpc.NewError", "srv/errors.go:ErrorNotFound:jrpc.NewError", "srv/errors.go:ErrorPendingDisabled:jrpc.NewError", "srv/errors.go:ErrorTokenNotFound:jrpc.NewError", "srv/errors.go:ErrorTokenSyncing:jrpc.NewError", "srv/errors.go:ErrorTransactionNotFound:jrpc.NewError", "srv/srv.go:srv:http.Server"]

def uncheckedRowLoops : List String := ["node/pegnet/addresses.go:SelectAllBalances", "node/pegnet/addresses.go:SelectRichList", "node/pegnet/txhistory_util.go:turnRowsIntoHistoryTransactions", "node/pegnet/winners.go:SelectGraded", "node/pegnet/winners.go:SelectMinerDominance"]

def sharedState : List String := ["node/average.go:GetPegNetRateAverages:node:LastAveragesHeight", "node/average.go:GetPegNetRateAverages:node:LastAverages", "node/average.go:GetPegNetRateAverages:node:LastAveragesData", "node/average.go:GetPegNetRateAverages:node:LastAveragesData", "node/average.go:GetPegNetRateAverages:node:LastAveragesHeight", "node/average.go:GetPegNetRateAverages:node:LastAverages", "node/average.go:GetPegNetRateAverages:node:LastAveragesHeight", "node/average.go:GetPegNetRateAverages:node:LastAveragesHeight", "node/average.go:GetPegNetRateAverages:node:LastAveragesHeight", "node/node.go:NewPegnetd:node:Synced", "node/sync.go:GetCurrentSync:node:Synced", "node/sync.go:DBlockSync:node:Synced", "node/sync.go:DBlockSync:node:Synced", "node/sync.go:DBlockSync:node:Synced", "node/sync.go:DBlockSync:node:Synced", "node/sync.go:DBlockSync:node:Synced", "node/sync.go:DBlockSync:node:Synced", "node/sync.go:DBlockSync:node:Synced", "node/sync.go:DBlockSync:node:Synced", "node/sync.go:DBlockSync:node:Synced", "node/sync.go:DBlockSync:node:Synced", "node/sync.go:DBlockSync:node:Synced", "node/sync.go:DBlockSync:node:Synced", "node/sync.go:DBlockSync:node:Synced", "node/sync.go:DBlockSync:node:Synced", "node/sync.go:DBlockSync:node:Synced", "node/sync.go:DBlockSync:node:Synced", "node/sync.go:DBlockSync:node:Synced", "node/sync.go:DBlockSync:node:Synced", "node/sync.go:DBlockSync:node:Synced", "node/sync.go:DBlockSync:node:Synced", "node/sync.go:DBlockSync:node:Synced", "node/sync.go:SyncBlock:node:Synced", "node/sync.go:SyncBlock:node:Synced", "srv/methods.go:getBank:srv:Synced", "srv/methods.go:getMiningDominance:srv:Synced", "srv/methods.go:getMiningDominance:srv:Synced", "srv/methods.go:getMiningDominance:srv:Synced", "srv/methods.go:rateAverages:srv:private:s.avgMu", "srv/methods.go:rateAverages:srv:private:s.avgMu", "srv/methods.go:rateAverages:srv:private:s.avgNode", "srv/methods.go:rateAverages:srv:new:node.Pegnetd{Pegnet: s.Node.Pegnet}", "srv/methods.go:rateAverages:srv:private:s.avgNode", "srv/methods.go:rateAverages:srv:call:s.avgNode.GetPegNetRateAverages", "srv/methods.go:rateAverages:srv:private:s.avgNode", "srv/methods.go:getGlobalRichList:srv:call:s.Node.GetCurrentSync", "srv/methods.go:getRichList:srv:call:s.Node.GetCurrentSync", "srv/methods.go:getPegnetRates:srv:Synced", "srv/methods.go:getSyncStatus:srv:call:s.Node.GetCurrentSync", "srv/methods.go:getSyncStatus:srv:call:s.Node.GetCurrentSync", "srv/methods.go:getGraded:srv:Synced"]

def apiSharedState : List String := ["srv/methods.go:getBank:srv:Synced", "srv/methods.go:getMiningDominance:srv:Synced", "srv/methods.go:getMiningDominance:srv:Synced", "srv/methods.go:getMiningDominance:srv:Synced", "srv/methods.go:rateAverages:srv:private:s.avgMu", "srv/methods.go:rateAverages:srv:private:s.avgMu", "srv/methods.go:rateAverages:srv:private:s.avgNode", "srv/methods.go:rateAverages:srv:new:node.Pegnetd{Pegnet: s.Node.Pegnet}", "srv/methods.go:rateAverages:srv:private:s.avgNode", "srv/methods.go:rateAverages:srv:call:s.avgNode.GetPegNetRateAverages", "srv/methods.go:rateAverages:srv:private:s.avgNode", "srv/methods.go:getGlobalRichList:srv:call:s.Node.GetCurrentSync", "srv/methods.go:getRichList:srv:call:s.Node.GetCurrentSync", "srv/methods.go:getPegnetRates:srv:Synced", "srv/methods.go:getSyncStatus:srv:call:s.Node.GetCurrentSync", "srv/methods.go:getSyncStatus:srv:call:s.Node.GetCurrentSync", "srv/methods.go:getGraded:srv:Synced"]

def goStatements : List String := ["cmd/root.go:always:cmd:go:func() {", "node/sync.go:multiFetch:node:go:func() {", "srv/srv.go:Start:srv:go:func() {", "srv/srv.go:Start:srv:go:func() {"]

def missing : List String := []

end Pegnet.Generated
