package main

// In-process fake Factom node: an http.RoundTripper that answers the JSON-RPC methods pegnetd
// uses (heights, dblock-by-height, raw-data, fblock-by-height) from an in-memory chain, keeps a
// request log and can fail chosen requests.

import (
	"bytes"
	"encoding/hex"
	"encoding/json"
	"fmt"
	"io/ioutil"
	"net/http"
	"sync"
)

type rpcReq struct {
	ID     int             `json:"id"`
	Method string          `json:"method"`
	Params json.RawMessage `json:"params"`
}

type ReqLog struct {
	Seq    int
	Method string
	Key    string // height or hash
	Failed bool
}

type FakeFactom struct {
	mu      sync.Mutex
	tip     uint32
	dblocks map[uint32][]byte  // raw dblock by height
	dbKeyMR map[uint32]string  // hex keymr
	raw     map[string][]byte  // raw-data by hex hash (eblocks by keymr, entries by hash)
	fblocks map[uint32][]byte  // raw fblock by height
	Log     []ReqLog
	seq     int

	// fault plan: fail the request with this global sequence number (1-based) once
	FailSeq map[int]bool
	// fail the N-th request (1-based) that concerns the given block height; key "h:n"
	FailAt map[string]bool
	perH   map[uint32]int
	curH   uint32 // height of the last dblock-by-height request (requests are attributed to it)

	heightsCh chan struct{} // signalled on every heights request
}

func NewFakeFactom() *FakeFactom {
	return &FakeFactom{
		dblocks: map[uint32][]byte{}, dbKeyMR: map[uint32]string{}, raw: map[string][]byte{},
		fblocks: map[uint32][]byte{}, FailSeq: map[int]bool{}, FailAt: map[string]bool{},
		perH: map[uint32]int{}, heightsCh: make(chan struct{}, 1024),
	}
}

func (f *FakeFactom) SetTip(h uint32) {
	f.mu.Lock()
	f.tip = h
	f.mu.Unlock()
}

func (f *FakeFactom) Tip() uint32 {
	f.mu.Lock()
	defer f.mu.Unlock()
	return f.tip
}

func jsonResp(req *http.Request, id int, result interface{}, rpcErr string) *http.Response {
	var body []byte
	if rpcErr != "" {
		body, _ = json.Marshal(map[string]interface{}{"jsonrpc": "2.0", "id": id,
			"error": map[string]interface{}{"code": -32008, "message": rpcErr}})
	} else {
		body, _ = json.Marshal(map[string]interface{}{"jsonrpc": "2.0", "id": id, "result": result})
	}
	return &http.Response{StatusCode: 200, Status: "200 OK", Proto: "HTTP/1.1", ProtoMajor: 1, ProtoMinor: 1,
		Header: http.Header{"Content-Type": []string{"application/json"}},
		Body:   ioutil.NopCloser(bytes.NewReader(body)), Request: req, ContentLength: int64(len(body))}
}

func (f *FakeFactom) RoundTrip(req *http.Request) (*http.Response, error) {
	data, err := ioutil.ReadAll(req.Body)
	if err != nil {
		return nil, err
	}
	var r rpcReq
	if err := json.Unmarshal(data, &r); err != nil {
		return nil, err
	}
	f.mu.Lock()
	defer f.mu.Unlock()
	f.seq++
	seq := f.seq
	key := ""
	var result interface{}
	rpcErr := ""
	switch r.Method {
	case "heights":
		result = map[string]interface{}{"directoryblockheight": f.tip, "leaderheight": f.tip + 1,
			"entryblockheight": f.tip, "entryheight": f.tip}
		select {
		case f.heightsCh <- struct{}{}:
		default:
		}
	case "dblock-by-height":
		var p struct {
			Height uint32 `json:"height"`
		}
		json.Unmarshal(r.Params, &p)
		key = fmt.Sprint(p.Height)
		f.curH = p.Height
		if raw, ok := f.dblocks[p.Height]; ok {
			result = map[string]interface{}{"rawdata": hex.EncodeToString(raw),
				"dblock": map[string]interface{}{"keymr": f.dbKeyMR[p.Height]}}
		} else {
			rpcErr = "Block not found"
		}
	case "fblock-by-height":
		var p struct {
			Height uint32 `json:"height"`
		}
		json.Unmarshal(r.Params, &p)
		key = fmt.Sprint(p.Height)
		if raw, ok := f.fblocks[p.Height]; ok {
			result = map[string]interface{}{"rawdata": hex.EncodeToString(raw)}
		} else {
			rpcErr = "Block not found"
		}
	case "raw-data":
		var p struct {
			Hash string `json:"hash"`
		}
		json.Unmarshal(r.Params, &p)
		key = p.Hash
		if raw, ok := f.raw[p.Hash]; ok {
			result = map[string]interface{}{"data": hex.EncodeToString(raw)}
		} else {
			rpcErr = "Object not found"
		}
	default:
		rpcErr = "Method not found"
	}
	failed := false
	if r.Method != "heights" {
		f.perH[f.curH]++
		k := fmt.Sprintf("%d:%d", f.curH, f.perH[f.curH])
		if f.FailAt[k] {
			delete(f.FailAt, k)
			failed = true
		}
	}
	if f.FailSeq[seq] {
		delete(f.FailSeq, seq)
		failed = true
	}
	f.Log = append(f.Log, ReqLog{Seq: seq, Method: r.Method, Key: key, Failed: failed})
	if failed {
		return nil, fmt.Errorf("injected upstream fault (request %d %s %s)", seq, r.Method, key)
	}
	return jsonResp(req, r.ID, result, rpcErr), nil
}

// RequestsFor returns how many non-heights requests have been attributed to height h.
func (f *FakeFactom) RequestsFor(h uint32) int {
	f.mu.Lock()
	defer f.mu.Unlock()
	return f.perH[h]
}

func (f *FakeFactom) ResetCounters() {
	f.mu.Lock()
	f.perH = map[uint32]int{}
	f.Log = nil
	f.mu.Unlock()
}
