package main

import (
	"fmt"

	"github.com/Factom-Asset-Tokens/factom"
	"github.com/pegnet/pegnetd/fat/fat2"
)

// The `avgwindow` scenario (C13, C07): availability of the PIP-10 averages. A lock-step chain in
// which PIP-10 is active almost from the start (AveragePeriod 8, AverageRequired 4) and the
// winning SPR quotes one of the assets the users keep converting far outside the 2.0.2 tolerance
// band for several heights in a row (the asset is recorded at 0), followed by an ungraded block,
// so that the averaging window is both short and poor in usable quotes when the chain goes on:
//   - pattern A: 5 zero quotes, then an ungraded block (the window is reloaded with 7 samples, at
//     most 3 of them non-zero, and stays unavailable whichever way it is counted);
//   - pattern B: 4 zero quotes, an ungraded block, a rated block, another ungraded block;
//   - pattern C: zero quotes at every other height over 10 heights, no ungraded block.
// The model computes the same windows (lock-step), and the ledger monitors state the rule on the
// implementation's own tables: no executed conversion involves an asset with fewer than
// AverageRequired non-zero quotes among the last AveragePeriod rated heights, and the averages in
// force are those taken at the last rated height before the block.
func scenAvgWindow(rep *Report, tier string, seed int64) {
	n := 2
	if tier == "thorough" {
		n = 8
	}
	for k := 0; k < n; k++ {
		runAvgWindowChain(rep, seed*131+int64(k), k)
	}
	rep.Rule = "one evaluation = one block of a 60-block chain with PIP-10 active from height 12 (AveragePeriod 8), runs of out-of-band (zero) quotes for a traded asset around ungraded blocks, applied by the real daemon and the model with full dumps compared and the ledger monitors (average availability, averages height, PIP-10 amounts, history replay) evaluated on the implementation's dump; distinct = (era, block shape)"
}

func init() { scenarios["avgwindow"] = scenAvgWindow }

func runAvgWindowChain(rep *Report, seed int64, k int) {
	a := restartActs()
	a.DevRewards, a.SprSig, a.OneWaySmall, a.V202 = 7, 7, 8, 8
	trend := []string{"EUR", "JPY", "XBT", "ETH"}
	zero := map[uint32]string{}
	gaps := map[uint32]bool{}
	pick := func(i int) string { return trend[(k+i)%len(trend)] }
	// pattern A
	zA := uint32(13 + k%3)
	for i := uint32(0); i < 5; i++ {
		zero[zA+i] = pick(0)
	}
	gaps[zA+5] = true
	// pattern B
	zB := zA + 14
	for i := uint32(0); i < 4; i++ {
		zero[zB+i] = pick(1)
	}
	gaps[zB+4] = true
	gaps[zB+6] = true
	zero[zB+7] = pick(1)
	// pattern C
	zC := zB + 16
	for i := uint32(0); i < 10; i += 2 {
		zero[zC+i] = pick(2)
	}
	last := zC + 14
	decorate := func(w *World, b *BlockSpec) {
		g := w.G
		h := b.Height
		if h < a.V20+2 {
			for i, u := range g.Users {
				b.FCT = append(b.FCT, Burn(h, u.FA(), 500e8, 40+i))
			}
		}
		if gaps[h] {
			b.OPR, b.SPR = nil, nil
			rep.Count("avgwindow:ungraded")
		} else {
			ver := OPRVersionAt(a, h)
			cnt := 25
			if ver == 1 {
				cnt = 10
			}
			b.OPR = g.OPRSet(h, ver, w.LastShortHashes(h), cnt, g.Rates, nil)
			b.SPR = nil
			if top := w.TopPEG(100); h >= a.V20 && len(top) > 0 {
				ids := make([][]byte, 25)
				signers := make([]factom.FsAddress, 25)
				payout := make([]string, 25)
				for i := range ids {
					ids[i] = top[i%len(top)]
					signers[i] = g.Users[0].Fs
					payout[i] = g.Miners[i%len(g.Miners)]
				}
				rates := map[string]uint64{}
				for name, v := range g.Rates {
					rates[name] = v
				}
				if name, ok := zero[h]; ok {
					rates[name] = rates[name] * 2
					rep.Count("avgwindow:zero-quote:" + name)
				}
				b.SPR = g.SPRSet(h, SPRVersionAt(a, h), ids, signers, payout, rates, nil)
			}
		}
		if h >= a.V20 {
			// every user keeps a conversion involving one of the trending assets pending
			for ui, u := range g.Users {
				from := u.FA()
				name := trend[(int(h)+ui)%len(trend)]
				tk := fat2.StringToTicker("p" + name)
				var tx fat2.Transaction
				if bal := w.Balance(from, tk); bal > 1000 && (int(h)+ui)%3 == 0 {
					tx = Conversion(from, tk, bal/3, fat2.PTickerUSD)
				} else if bal := w.Balance(from, fat2.PTickerFCT); bal > 1e8 {
					tx = Conversion(from, fat2.PTickerFCT, bal/10, tk)
				} else if bal := w.Balance(from, fat2.PTickerUSD); bal > 1000 {
					tx = Conversion(from, fat2.PTickerUSD, bal/4, tk)
				} else {
					continue
				}
				b.TX = append(b.TX, g.Batch(h, u, []fat2.Transaction{tx}))
				rep.Count("avgwindow:conversion-submitted:" + name)
			}
		}
	}
	rep.Count(fmt.Sprintf("avgwindow:chain:zA=%d", zA))
	runLedgerChainWith(rep, seed, 0, "quick", &a, last, decorate)
}
