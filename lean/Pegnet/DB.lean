import Pegnet.Monad
import Pegnet.Arith
/-
  The ledger state: one field per SQLite table, at the granularity the properties observe,
  and the primitive table operations with their constraints made explicit.
-/
namespace Pegnet

structure AddrRow where
  addr : Addr
  bals : List Int
  deriving Repr

structure RateRow where
  height : Nat
  token  : String
  value  : Nat
  deriving Repr

structure GradeRow where
  height : Nat
  keymr : String
  shorthashes : String   -- JSON text
  version : Nat
  cutoff : Nat
  count : Nat
  deriving Repr

structure WinnerRow where
  height : Nat
  position : Nat
  entryhash : String
  payout : Int
  minerid : String
  addrStr : String
  deriving Repr

structure Transfer where
  addr : Addr
  amount : Nat
  deriving Repr, DecidableEq

structure Tx where
  inAddr : Addr
  inType : Ticker
  inAmount : Nat
  transfers : List Transfer
  conversion : Ticker      -- 0 = none
  deriving Repr, DecidableEq

/-- An entry of the transaction chain as the model sees it: the decoded JSON (if
    `UnmarshalJSON` accepted it) and the verdicts of `fat103.Validate` under the two flag sets. -/
structure TxEntry where
  hash : Hash
  ts : Int
  parsed : Option (Nat × List Tx)   -- version, transactions
  validRCD1 : Bool                  -- fat103.Validate(entry, inputs, R_RCD1) == nil
  validRCDe : Bool                  -- fat103.Validate(entry, inputs, R_RCD1|R_RCDe) == nil
  deriving Repr

structure HoldRow where
  entry : TxEntry
  height : Nat
  keymr : String
  deriving Repr

structure RelRow where
  hash : Hash
  addr : Addr
  txIndex : Nat
  to : Bool
  conv : Bool
  deriving Repr

structure HistBatch where
  hash : Hash
  height : Int
  blockorder : Int
  ts : Int
  executed : Int
  deriving Repr

structure HistTx where
  hash : Hash
  txIndex : Int
  action : Nat              -- 1 transfer 2 conversion 3 coinbase 4 fct burn
  fromAddr : Addr
  fromAsset : String
  fromAmount : Int
  toAsset : String
  toAmount : Int
  outputs : String          -- canonical rendering "addr:amount,…" ("" when empty string in DB)
  /-- history variables (never read by the model, not dumped): the structured form of what the
      text columns above hold for transfers and conversions — source and destination asset as
      tickers, and the output list — so that theorems can replay the history. -/
  fromT : Ticker := 0
  toT : Ticker := 0
  outs : List (Addr × Nat) := []
  deriving Repr

structure HistLookup where
  hash : Hash
  txIndex : Int
  addr : Addr
  deriving Repr

structure BankRow where
  height : Int
  amount : Int
  used : Int
  requested : Int
  deriving Repr

structure DB where
  addrs : List AddrRow := []
  snapPast : List AddrRow := []
  snapCur : List AddrRow := []
  rates : List RateRow := []
  grades : List GradeRow := []
  winners : List WinnerRow := []
  holding : List HoldRow := []
  rels : List RelRow := []
  histB : List HistBatch := []
  histT : List HistTx := []
  histL : List HistLookup := []
  bank : List BankRow := []
  synced : Option Nat := none
  syncVersions : List (Nat × Int) := []
  avgTouched : Bool := false      -- ephemeral: ApplyTransactionBatchesInHolding was reached in this block
  /-- history variable (not a table, never read by the model): every call of
      `SetTransactionHistoryExecuted` so far, in order, as (entry hash, status written). It lets
      theorems speak about "a status was recorded for this entry while this block was applied". -/
  statusLog : List (Hash × Int) := []
  /-- history variable (never read by the model): the entry hashes `applyTransactionBatch` went on
      to record, in order — one element per EXECUTION of a batch. -/
  execLog : List Hash := []
  deriving Repr

abbrev LM := M DB

/-! ### balances -/

def findRow (rows : List AddrRow) (a : Addr) : Option AddrRow := rows.find? (·.addr == a)

/-- balance of `a` in asset `t` (0 when the address has no row). -/
def DB.bal (db : DB) (a : Addr) (t : Ticker) : Int :=
  match findRow db.addrs a with
  | some r => getB r.bals t
  | none => 0

/-- all balances of an address as a ticker map, the shape `selectBalances` returns. -/
def DB.balances (db : DB) (a : Addr) : Ticker → Int := fun t => db.bal a t

def updRow (rows : List AddrRow) (a : Addr) (t : Ticker) (f : Int → Int) : List AddrRow :=
  rows.map (fun r => if r.addr == a then { r with bals := setB r.bals t (f (getB r.bals t)) } else r)

/-- upsert used by `AddToBalance`: existing row updated, otherwise a new row appended. -/
def upsertAdd (rows : List AddrRow) (a : Addr) (t : Ticker) (v : Int) : List AddrRow :=
  match findRow rows a with
  | some _ => updRow rows a t (· + v)
  | none => rows ++ [{ addr := a, bals := setB [] t v }]

/-- `Pegnet.AddToBalance(tx, adr, ticker, value)`; `value` is a Go uint64. -/
abbrev addBal (P : Params) (a : Addr) (t : Ticker) (v : Nat) : LM Unit :=
  M.guarded
    (fun _ => if !validTicker P t then some (.sqlError "no column named invalid token type_balance")
              else if v > maxInt64 then some (.sqlError "uint64 values with high bit set are not supported")
              else none)
    (fun db => { db with addrs := upsertAdd db.addrs a t v })

/-- the `UPDATE … SET x = x - ?` of `SubFromBalance` (after its balance check) -/
abbrev debit (a : Addr) (t : Ticker) (v : Nat) : LM Unit :=
  M.guarded
    (fun _ => if v > maxInt64 then some (.sqlError "uint64 values with high bit set are not supported") else none)
    (fun db => { db with addrs := updRow db.addrs a t (· - v) })

/-- `Pegnet.SubFromBalance`.  Result `false` = `txErr` (insufficient balance), nothing written. -/
def subBal (P : Params) (a : Addr) (t : Ticker) (v : Nat) : LM Bool := do
  if v = 0 then
    addBal P a t 0
    pure true
  else if !validTicker P t then M.throw (.sqlError "invalid token type")
  else
    let db ← M.get
    if db.bal a t < (v : Int) then pure false
    else do
      debit a t v
      pure true

/-! ### rates -/

def DB.ratesAt (db : DB) (h : Nat) : List RateRow := db.rates.filter (·.height == h)

/-- `_extractAssets`: rows of one height as a ticker map (unknown tokens dropped). -/
def ratesToMap (P : Params) (rows : List RateRow) : TMap :=
  rows.foldl (fun m r =>
    let t := stringToTicker P r.token
    if t == 0 then m else m.set t r.value) []

abbrev insertRate (h : Nat) (token : String) (v : Nat) : LM Unit :=
  M.guarded
    (fun db => if db.rates.any (fun r => r.height == h && r.token == token) then some (.sqlConstraint "pn_rate")
               else if v > maxInt64 then some (.sqlError "uint64 values with high bit set are not supported")
               else none)
    (fun db => { db with rates := db.rates ++ [{ height := h, token := token, value := v }] })

/-- `SelectMostRecentRatesBeforeHeight`: (rates, height) of the greatest rated height `< h`;
    `([], 0)` when there is none. -/
def DB.mostRecentRatesBefore (db : DB) (h : Nat) : List RateRow × Nat :=
  let hs := (db.rates.filter (·.height < h)).map (·.height)
  match hs with
  | [] => ([], 0)
  | _ => let mh := hs.foldl max 0
         (db.ratesAt mh, mh)

/-! ### history -/

abbrev insertHistBatch (r : HistBatch) : LM Unit :=
  M.guarded
    (fun db => if db.histB.any (fun x => x.hash == r.hash && x.height == r.height) then some (.sqlConstraint "pn_history_txbatch") else none)
    (fun db => { db with histB := db.histB ++ [r] })

abbrev insertHistTx (r : HistTx) : LM Unit :=
  M.guarded
    (fun db => if db.histT.any (fun x => x.hash == r.hash && x.txIndex == r.txIndex) then some (.sqlConstraint "pn_history_transaction") else none)
    (fun db => { db with histT := db.histT ++ [r] })

abbrev insertLookup (r : HistLookup) : LM Unit :=
  M.guarded (fun _ => none)
    (fun db => if db.histL.any (fun x => x.hash == r.hash && x.txIndex == r.txIndex && x.addr == r.addr) then db
               else { db with histL := db.histL ++ [r] })

/-- `SetTransactionHistoryExecuted`: every batch row with this hash. -/
abbrev setExecuted (hash : Hash) (v : Int) : LM Unit :=
  M.guarded (fun _ => none) fun db =>
    { db with histB := db.histB.map (fun r => if r.hash == hash then { r with executed := v } else r),
              statusLog := db.statusLog ++ [(hash, v)] }

abbrev setConvertedAmount (hash : Hash) (idx : Nat) (amt : Int) : LM Unit :=
  M.guarded (fun _ => none) fun db => { db with histT := db.histT.map (fun r =>
    if r.hash == hash && r.txIndex == (idx : Int) then { r with toAmount := amt } else r) }

abbrev setPegConverted (hash : Hash) (idx : Nat) (amt : Int) (outputs : String) : LM Unit :=
  M.guarded (fun _ => none) fun db => { db with histT := db.histT.map (fun r =>
    if r.hash == hash && r.txIndex == (idx : Int) then { r with toAmount := amt, outputs := outputs } else r) }

/-! ### relations (replay protection) -/

abbrev insertRelation (hash : Hash) (a : Addr) (idx : Nat) (to conv : Bool) : LM Unit :=
  M.guarded (fun _ => none)
    (fun db => if db.rels.any (fun r => r.hash == hash && r.addr == a) then db
               else { db with rels := db.rels ++ [{ hash := hash, addr := a, txIndex := idx, to := to || conv, conv := conv }] })

def DB.isReplay (db : DB) (hash : Hash) : Bool := db.rels.any (·.hash == hash)

/-- `IsTransactionHistoryRecorded`: some history batch row carries this hash -/
def DB.isRecorded (db : DB) (hash : Hash) : Bool := db.histB.any (·.hash == hash)

/-! ### holding -/

abbrev insertHolding (r : HoldRow) : LM Unit :=
  M.guarded
    (fun db => if db.holding.any (fun x => x.entry.hash == r.entry.hash) then some (.sqlConstraint "pn_transaction_batch_holding") else none)
    (fun db => { db with holding := db.holding ++ [r] })

/-! ### bank -/

abbrev insertBank (h : Int) (amount : Int) : LM Unit :=
  M.guarded
    (fun db => if db.bank.any (·.height == h) then some (.sqlConstraint "pn_bank") else none)
    (fun db => { db with bank := db.bank ++ [{ height := h, amount := amount, used := -1, requested := -1 }] })

abbrev updateBank (h : Int) (used requested : Int) : LM Unit :=
  M.guarded
    (fun db => if db.bank.any (·.height == h) then none else some (.uncaught "bank entry not updated"))
    (fun db => { db with bank := db.bank.map (fun r => if r.height == h then { r with used := used, requested := requested } else r) })

def DB.bankAmount (db : DB) (h : Int) : Int :=
  match db.bank.find? (·.height == h) with
  | some r => r.amount
  | none => -1

/-! ### grading tables -/

abbrev insertGrade (r : GradeRow) : LM Unit :=
  M.guarded
    (fun db => if db.grades.any (·.height == r.height) then some (.sqlConstraint "pn_grade") else none)
    (fun db => { db with grades := db.grades ++ [r] })

abbrev insertWinner (r : WinnerRow) : LM Unit :=
  M.guarded
    (fun db => if db.winners.any (fun x => x.height == r.height && x.position == r.position) then some (.sqlConstraint "pn_winners") else none)
    (fun db => { db with winners := db.winners ++ [r] })

/-! ### sync bookkeeping -/

abbrev markSynced (h : Nat) (version : Int) : LM Unit :=
  M.guarded
    (fun db => if db.syncVersions.any (·.1 == h) then some (.sqlConstraint "pn_sync_version") else none)
    (fun db => { db with syncVersions := db.syncVersions ++ [(h, version)], synced := some h })

end Pegnet
