import Proofs.Supply
import Proofs.Events
/-
  C04 — Supply conservation: value is created or destroyed only by protocol events.
-/
namespace Pegnet.C04
open Pegnet

/-- what the outputs of a transfer credit: everything except outputs to the burn address -/
def creditedSum (burn : Addr) (trs : List Transfer) : Int :=
  ((trs.filter (fun tr => !(tr.addr == burn))).map (fun tr => (tr.amount : Int))).sum

def burnedSum (burn : Addr) (trs : List Transfer) : Int :=
  ((trs.filter (fun tr => tr.addr == burn)).map (fun tr => (tr.amount : Int))).sum

theorem credit_transfers_supply (P : Params) (h : Nat) (hash : Hash) (idx : Nat) (ty : Ticker) (trs : List Transfer)
    (s s' : DB) (hok : AddrsOK s)
    (hr : M.forEach trs (fun tr =>
        if tr.addr == burnAddrAt P h then (pure () : LM Unit) else do
          addBal P tr.addr ty tr.amount
          insertRelation hash tr.addr idx true false) s = .ok () s') :
    (∀ t', s'.supply t' = s.supply t' + (if ty = t' then creditedSum (burnAddrAt P h) trs else 0)) ∧ AddrsOK s' := by
  induction trs generalizing s with
  | nil =>
    simp only [M.forEach, M.pure_run'] at hr
    injection hr with _ hs; subst hs
    exact ⟨fun t' => by simp [creditedSum], hok⟩
  | cons tr rest ih =>
    simp only [M.forEach] at hr
    obtain ⟨_, s1, h1, h2⟩ := M.bind_ok (m := if tr.addr == burnAddrAt P h then (pure () : LM Unit) else do
          addBal P tr.addr ty tr.amount
          insertRelation hash tr.addr idx true false) hr
    by_cases hb : (tr.addr == burnAddrAt P h) = true
    · rw [if_pos hb] at h1
      simp only [M.pure_run] at h1
      injection h1 with _ hs; subst hs
      obtain ⟨hsup, hok'⟩ := ih s hok h2
      refine ⟨fun t' => ?_, hok'⟩
      rw [hsup t']
      simp [creditedSum, hb]
    · rw [if_neg hb] at h1
      obtain ⟨_, s0, ha, hi⟩ := M.bind_ok h1
      obtain ⟨hsa, hoka⟩ := addBal_supply P tr.addr ty tr.amount s s0 hok ha
      have hkeep : s1.addrs = s0.addrs := by
        unfold insertRelation M.guarded at hi
        simp only at hi
        injection hi with _ hs; subst hs
        split <;> rfl
      have hok1 : AddrsOK s1 := by unfold AddrsOK at *; rw [hkeep]; exact hoka
      obtain ⟨hsup, hok'⟩ := ih s1 hok1 h2
      refine ⟨fun t' => ?_, hok'⟩
      rw [hsup t']
      have : s1.supply t' = s0.supply t' := by unfold DB.supply; rw [hkeep]
      rw [this, hsa t']
      have hb' : (tr.addr == burnAddrAt P h) = false := by simpa using hb
      simp only [creditedSum, List.filter_cons, hb', Bool.not_false, if_true, List.map_cons, List.sum_cons]
      split <;> omega

/-- A transfer moves value without creating or destroying any: executing one transfer
    transaction changes the supply of its asset by minus the input plus what is credited, i.e. by
    exactly minus what was sent to the burn address; no other asset's supply changes. -/
theorem transfer_conserves (P : Params) (h : Nat) (hash : Hash) (rates avgs : Option TMap) (idx : Nat) (t : Tx)
    (s s' : DB) (hok : AddrsOK s) (htr : t.transfers ≠ [])
    (hsum : ((t.transfers.map (fun tr => (tr.amount : Int))).sum) = (t.inAmount : Int))
    (hr : recordTx P h hash rates avgs idx t s = .ok () s') :
    (∀ t', s'.supply t' = s.supply t' - (if t.inType = t' then burnedSum (burnAddrAt P h) t.transfers else 0)) ∧ AddrsOK s' := by
  unfold recordTx at hr
  obtain ⟨okb, s1, hsub, hr⟩ := M.bind_ok hr
  by_cases hokb : (!okb) = true
  · rw [if_pos hokb] at hr; cases hr
  · rw [if_neg hokb] at hr
    have hb : okb = true := by simpa using hokb
    subst hb
    obtain ⟨hs1, hok1⟩ := subBal_supply P t.inAddr t.inType t.inAmount s s1 true hok hsub
    obtain ⟨_, s2, hrel, hr⟩ := M.bind_ok hr
    have hk2 : s2.addrs = s1.addrs := by
      unfold insertRelation M.guarded at hrel
      simp only at hrel
      injection hrel with _ hs; subst hs
      split <;> rfl
    obtain ⟨_, s3, hex, hr⟩ := M.bind_ok hr
    have hk3 : s3.addrs = s2.addrs := by
      unfold setExecuted M.guarded at hex
      simp only at hex
      injection hex with _ hs; subst hs; rfl
    have hok3 : AddrsOK s3 := by unfold AddrsOK at *; rw [hk3, hk2]; exact hok1
    -- outputs of a transfer
    unfold recordOutputs at hr
    have hnp : ¬ (h ≥ P.act.convLimit ∧ t.isPEGRequest = true) := by
      intro ⟨_, hp⟩
      unfold Tx.isPEGRequest at hp
      cases htl : t.transfers with
      | nil => exact htr htl
      | cons _ _ => rw [htl] at hp; simp at hp
    have hnc : ¬ (t.isConversion P = true) := by
      intro hc
      unfold Tx.isConversion at hc
      cases htl : t.transfers with
      | nil => exact htr htl
      | cons _ _ => rw [htl] at hc; simp at hc
    simp only [hnp, hnc, if_false] at hr
    obtain ⟨hs', hok'⟩ := credit_transfers_supply P h hash idx t.inType t.transfers s3 s' hok3 hr
    refine ⟨fun t' => ?_, hok'⟩
    rw [hs' t']
    have e3 : s3.supply t' = s1.supply t' := by unfold DB.supply; rw [hk3, hk2]
    rw [e3, hs1 t']
    have hsplit : creditedSum (burnAddrAt P h) t.transfers + burnedSum (burnAddrAt P h) t.transfers = (t.inAmount : Int) := by
      rw [← hsum]
      unfold creditedSum burnedSum
      generalize t.transfers = l
      induction l with
      | nil => simp
      | cons x xs ih =>
        by_cases hx : (x.addr == burnAddrAt P h) = true
        · simp only [List.filter_cons, hx, Bool.not_true, Bool.false_eq_true, if_false, if_true, List.map_cons, List.sum_cons] at ih ⊢
          omega
        · have hx' : (x.addr == burnAddrAt P h) = false := by simpa using hx
          simp only [List.filter_cons, hx', Bool.not_false, Bool.false_eq_true, if_false, if_true, List.map_cons, List.sum_cons] at ih ⊢
          omega
    by_cases htt : t.inType = t'
    · simp only [htt, if_true, and_self]; omega
    · simp only [htt, if_false, and_false]; omega

/-- with no output to the burn address a transfer leaves every asset's supply unchanged -/
theorem plain_transfer_supply_unchanged (P : Params) (h : Nat) (hash : Hash) (rates avgs : Option TMap) (idx : Nat) (t : Tx)
    (s s' : DB) (hok : AddrsOK s) (htr : t.transfers ≠ [])
    (hsum : ((t.transfers.map (fun tr => (tr.amount : Int))).sum) = (t.inAmount : Int))
    (hnb : ∀ tr ∈ t.transfers, (tr.addr == burnAddrAt P h) = false)
    (hr : recordTx P h hash rates avgs idx t s = .ok () s') : ∀ t', s'.supply t' = s.supply t' := by
  intro t'
  rw [(transfer_conserves P h hash rates avgs idx t s s' hok htr hsum hr).1 t']
  have : burnedSum (burnAddrAt P h) t.transfers = 0 := by
    unfold burnedSum
    have : t.transfers.filter (fun tr => tr.addr == burnAddrAt P h) = [] := by
      apply List.filter_eq_nil_iff.2
      intro tr htr'
      simp [hnb tr htr']
    rw [this]; rfl
  rw [this]; split <;> omega

/-- a rejected or dropped batch changes no supply (it changes nothing at all) -/
theorem rejected_batch_supply_unchanged {P : Params} {h : Nat} {e : TxEntry} {rates avgs : Option TMap} {s s' : DB} {v : Verdict}
    (hr : applyBatch P h e rates avgs s = .ok v s') (hv : v ≠ .apply) (t : Ticker) : s'.supply t = s.supply t := by
  rw [applyBatch_noop hr hv]

/-- **A transfer, for every address and asset.** After an executed transfer the balance of EVERY
    address `a` in EVERY asset `x` is its balance before, minus the input amount when `a` is the
    sender and `x` the transferred asset, plus the outputs naming `a` in that asset (outputs to the
    burn address are not credited). Every unit debited from the sender is credited to the named
    recipients, and nobody else's balance changes. (`Outcome`: the only other way the step can end is
    an SQL-level failure of the block, never a partial application.) -/
theorem transfer_moves_value_exactly (P : Params) (h : Nat) (hash : Hash) (rates avgs : Option TMap) (idx : Nat) (t : Tx)
    (htr : t.transfers ≠ []) (s : DB) (hf : (t.inAmount : Int) ≤ s.bal t.inAddr t.inType) :
    Outcome (recordTx P h hash rates avgs idx t s)
      (fun _ s' => ∀ a x, s'.bal a x = s.bal a x
        - (if a = t.inAddr ∧ x = t.inType then (t.inAmount : Int) else 0)
        + (if x = t.inType then creditedTo P h a t.transfers else 0)) :=
  transfer_exact P h hash rates avgs idx t htr s hf

/-- nobody else: an address that is neither the sender nor named in an output keeps every balance -/
theorem transfer_leaves_bystanders_alone (P : Params) (h : Nat) (a : Addr) (t : Tx)
    (hns : a ≠ t.inAddr) (hno : ∀ tr ∈ t.transfers, tr.addr ≠ a) (x : Ticker) :
    (- (if a = t.inAddr ∧ x = t.inType then (t.inAmount : Int) else 0)
      + (if x = t.inType then creditedTo P h a t.transfers else 0)) = 0 := by
  have hb : backTo a t.transfers = 0 := by
    unfold backTo
    have : t.transfers.filter (·.addr == a) = [] := by
      apply List.filter_eq_nil_iff.2
      intro tr htr
      simpa using hno tr htr
    rw [this]; rfl
  unfold creditedTo
  simp [hns, hb]

/-- **Mining and staking-record rewards create exactly the rewards decided**: for every address
    and asset, applying the graded OPR (SPR) block changes only the PEG balance of the payout
    addresses of the winning records, by exactly their payouts. -/
theorem opr_rewards_create_exactly (P : Params) (oh ts : Int) (ws : List OprW) (s : DB) :
    Outcome (applyGradedOPR P oh ts ws s)
      (fun _ s' => ∀ a x, s'.bal a x = s.bal a x + (if x = tPEG then oprCredit a ws else 0)) :=
  oprRewards_exact P oh ts ws s

theorem spr_rewards_create_exactly (P : Params) (oh ts : Int) (ws : List SprW) (s : DB) :
    Outcome (applyGradedSPR P oh ts ws s)
      (fun _ s' => ∀ a x, s'.bal a x = s.bal a x + (if x = tPEG then sprCredit a ws else 0)) :=
  sprRewards_exact P oh ts ws s

end Pegnet.C04

#print axioms Pegnet.C04.credit_transfers_supply
#print axioms Pegnet.C04.transfer_conserves
#print axioms Pegnet.C04.plain_transfer_supply_unchanged
#print axioms Pegnet.C04.rejected_batch_supply_unchanged
#print axioms Pegnet.C04.transfer_moves_value_exactly
#print axioms Pegnet.C04.transfer_leaves_bystanders_alone
#print axioms Pegnet.C04.opr_rewards_create_exactly
#print axioms Pegnet.C04.spr_rewards_create_exactly
