import Proofs.Chain
/-
  Before PIP-10 the rolling averages are not a consensus input: `Convert` ignores them, so the
  whole block transaction is the same function whatever averages it is handed. This is what makes
  restarts, crashes and failed attempts invisible below the PIP-10 activation (C02, C09, C10):
  the only state a process keeps outside the database is the averaging cache.
-/
namespace Pegnet

theorem convert_pre_pip10 {pip10 h : Nat} (hlt : h < pip10) (amt : Int) (fr fa tr ta fa' ta' : Nat) :
    convert pip10 h amt fr fa tr ta = convert pip10 h amt fr fa' tr ta' := by
  have e : ¬ h ≥ pip10 := by omega
  simp only [convert, e, false_and, if_false]

theorem convertD_pre_pip10 {pip10 h : Nat} (hlt : h < pip10) (amt : Int) (fr fa tr ta fa' ta' : Nat) :
    convertD pip10 h amt fr fa tr ta = convertD pip10 h amt fr fa' tr ta' := by
  unfold convertD; rw [convert_pre_pip10 hlt amt fr fa tr ta fa' ta']

section
variable {P : Params} {h : Nat} (hlt : h < P.act.pip10)
include hlt

theorem pass1Tx_avgs (bal : Ticker → Int) (rates : Option TMap) (a₁ a₂ : Option TMap) (t : Tx) :
    pass1Tx P h bal rates a₁ t = pass1Tx P h bal rates a₂ t := by
  unfold pass1Tx
  simp only [convert_pre_pip10 hlt _ _ ((a₁.getD []).get t.inType) _ ((a₁.getD []).get t.conversion)
    ((a₂.getD []).get t.inType) ((a₂.getD []).get t.conversion)]

theorem pass1_avgs (bal : Ticker → Int) (rates : Option TMap) (a₁ a₂ : Option TMap) (txs : List Tx) :
    pass1 P h bal rates a₁ txs = pass1 P h bal rates a₂ txs := by
  induction txs with
  | nil => rfl
  | cons t rest ih => unfold pass1; rw [pass1Tx_avgs hlt bal rates a₁ a₂ t, ih]

theorem pass2_avgs (rates : Option TMap) (a₁ a₂ : Option TMap) (bal : Ticker → Int) (txs : List Tx) :
    pass2 P h rates a₁ bal txs = pass2 P h rates a₂ bal txs := by
  induction txs generalizing bal with
  | nil => rfl
  | cons t rest ih =>
    unfold pass2
    simp only [convert_pre_pip10 hlt _ _ ((a₁.getD []).get t.inType) _ ((a₁.getD []).get t.conversion)
      ((a₂.getD []).get t.inType) ((a₂.getD []).get t.conversion), ih]

theorem verdict_avgs (db : DB) (rates : Option TMap) (a₁ a₂ : Option TMap) (txs : List Tx) :
    verdict P db h rates a₁ txs = verdict P db h rates a₂ txs := by
  unfold verdict
  cases txs with
  | nil => rfl
  | cons t rest => simp only [pass1_avgs hlt _ rates a₁ a₂, pass2_avgs hlt rates a₁ a₂]

theorem recordOutputs_avgs (hash : Hash) (rates : Option TMap) (a₁ a₂ : Option TMap) (idx : Nat) (t : Tx) :
    recordOutputs P h hash rates a₁ idx t = recordOutputs P h hash rates a₂ idx t := by
  unfold recordOutputs
  simp only [convert_pre_pip10 hlt _ _ ((a₁.getD []).get t.inType) _ ((a₁.getD []).get t.conversion)
    ((a₂.getD []).get t.inType) ((a₂.getD []).get t.conversion)]

theorem recordTx_avgs (hash : Hash) (rates : Option TMap) (a₁ a₂ : Option TMap) (idx : Nat) (t : Tx) :
    recordTx P h hash rates a₁ idx t = recordTx P h hash rates a₂ idx t := by
  unfold recordTx; simp only [recordOutputs_avgs hlt hash rates a₁ a₂]

theorem recordBatch_avgs (hash : Hash) (rates : Option TMap) (a₁ a₂ : Option TMap) (txs : List Tx) :
    recordBatch P h hash rates a₁ txs = recordBatch P h hash rates a₂ txs := by
  unfold recordBatch
  have : recordTx P h hash rates a₁ = recordTx P h hash rates a₂ := by
    funext idx t; exact recordTx_avgs hlt hash rates a₁ a₂ idx t
  rw [this]

theorem applyBatch_avgs (e : TxEntry) (rates : Option TMap) (a₁ a₂ : Option TMap) :
    applyBatch P h e rates a₁ = applyBatch P h e rates a₂ := by
  unfold applyBatch
  simp only [verdict_avgs hlt _ rates a₁ a₂, recordBatch_avgs hlt e.hash rates a₁ a₂]

theorem pegRequests_avgs (rates a₁ a₂ : TMap) (bs : List TxEntry) :
    pegRequests P h rates a₁ bs = pegRequests P h rates a₂ bs := by
  unfold pegRequests
  congr 1; funext e; congr 1; funext p
  dsimp only
  rw [convertD_pre_pip10 hlt _ _ (a₁.get p.1.inType) _ (a₁.get p.1.conversion) (a₂.get p.1.inType) (a₂.get p.1.conversion)]

theorem recordPegRequests_avgs (rates a₁ a₂ : TMap) (bs : List TxEntry) (bank : Nat) (bh : Int) :
    recordPegRequests P h rates a₁ bs bank bh = recordPegRequests P h rates a₂ bs bank bh := by
  unfold recordPegRequests
  rw [pegRequests_avgs hlt rates a₁ a₂ bs]

theorem applyHeld_avgs (rates a₁ a₂ : TMap) (e : TxEntry) :
    applyHeld P h rates a₁ e = applyHeld P h rates a₂ e := by
  unfold applyHeld
  simp only [applyBatch_avgs hlt e (some rates) (some a₁) (some a₂)]

theorem applyHolding_avgs (c : DB) (rates a₁ a₂ : TMap) (fromH : Nat) :
    applyHolding P c h rates a₁ fromH = applyHolding P c h rates a₂ fromH := by
  unfold applyHolding
  have e1 : applyHeld P h rates a₁ = applyHeld P h rates a₂ := by
    funext e; exact applyHeld_avgs hlt rates a₁ a₂ e
  have e2 : recordPegRequests P h rates a₁ = recordPegRequests P h rates a₂ := by
    funext bs bank bh; exact recordPegRequests_avgs hlt rates a₁ a₂ bs bank bh
  rw [e1, e2]

end

/-- below PIP-10 the block transaction does not depend on the averages it is given -/
theorem blockTx_avgs {P : Params} (c : DB) (b : Block) (a₁ a₂ : TMap) (hlt : b.height < P.act.pip10) :
    blockTx P c b a₁ = blockTx P c b a₂ := by
  unfold blockTx syncBlock txPhase holdingPhase
  simp only [applyHolding_avgs hlt c _ a₁ a₂]

/-- …hence the committed result of a block does not depend on the in-memory cache -/
theorem applyBlock_cache_irrelevant {P : Params} (n₁ n₂ : Node) (b : Block) (hdb : n₁.db = n₂.db)
    (hlt : b.height < P.act.pip10) :
    (applyBlock P n₁ b).1.db = (applyBlock P n₂ b).1.db ∧ (applyBlock P n₁ b).2 = (applyBlock P n₂ b).2 := by
  unfold applyBlock
  simp only [hdb]
  generalize (getAverages P _ n₁.cache _) = g₁
  generalize (getAverages P _ n₂.cache _) = g₂
  rw [blockTx_avgs _ b g₁.2 g₂.2 hlt]
  constructor <;> (split <;> rfl)

end Pegnet
