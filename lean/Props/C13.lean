import Proofs.BatchLemmas
import Pegnet.Generated.Facts
/-
  C13 — Conversion admission rules by height.
-/
namespace Pegnet.C13
open Pegnet

/-- the admission rule table, in the order the checks are made -/
def admitSpec (P : Params) (h : Nat) (bal : Int) (rates avgs : TMap) (t : Tx) : Verdict :=
  if (t.inAmount : Int) > bal then .reject (-1)
  else if rates.isEmpty then .failBlock (.uncaught "rates must exist if TransactionBatch contains conversions")
  else if rates.get t.inType = 0 ∨ rates.get t.conversion = 0 then .reject (-4)
  else if h ≥ P.act.oneWayFCT ∧ t.conversion = tFCT then .reject (-3)
  else if h ≥ P.act.oneWaySmall ∧ P.oneWaySet.contains t.conversion then .reject (-5)
  else match convert P.act.pip10 h (toInt64 t.inAmount) (rates.get t.inType) (avgs.get t.inType)
              (rates.get t.conversion) (avgs.get t.conversion) with
    | none => .dropped
    | some _ => .apply

/-- For every source / destination pair, every height, every rate and average map and every
    balance: the outcome of a single-conversion batch is exactly the rule table's. -/
theorem admission_table (P : Params) (db : DB) (h : Nat) (rates avgs : TMap) (t : Tx)
    (hc : t.isConversion P = true) :
    verdict P db h (some rates) (some avgs) [t] = admitSpec P h (db.bal t.inAddr t.inType) rates avgs t := by
  unfold verdict admitSpec
  simp only
  unfold pass1 pass1Tx
  simp only [DB.balances, hc, if_true, Option.getD_some]
  by_cases h1 : (t.inAmount : Int) > db.bal t.inAddr t.inType
  · simp [h1]
  · simp only [h1, if_false]
    by_cases h2 : rates.isEmpty = true
    · simp [h2]
    · simp only [h2, Bool.false_eq_true, if_false]
      by_cases h3 : rates.get t.inType = 0 ∨ rates.get t.conversion = 0
      · simp [h3]
      · simp only [h3, if_false]
        by_cases h4 : h ≥ P.act.oneWayFCT ∧ t.conversion = tFCT
        · simp [h4]
        · simp only [h4, if_false]
          by_cases h5 : h ≥ P.act.oneWaySmall ∧ P.oneWaySet.contains t.conversion = true
          · have hm : t.conversion ∈ P.oneWaySet := by simpa using h5.2
            simp [h5.1, hm]
          · simp only [h5, if_false]
            cases hcv : convert P.act.pip10 h (toInt64 t.inAmount) (rates.get t.inType) (avgs.get t.inType)
                (rates.get t.conversion) (avgs.get t.conversion) with
            | none => simp
            | some out =>
              simp only [pass1]
              unfold pass2
              have : ¬ db.bal t.inAddr t.inType < (t.inAmount : Int) := by omega
              simp only [DB.balances, this, if_false, hc, if_true, Option.getD_some, hcv]
              unfold pass2
              simp

/-- destinations made one-way are refused and the refusal leaves every balance untouched -/
theorem forbidden_destination_no_effect (P : Params) (h : Nat) (e : TxEntry) (rates avgs : TMap) (s s' : DB) (c : Int)
    (hr : applyBatch P h e (some rates) (some avgs) s = .ok (.reject c) s') : s' = s :=
  applyBatch_noop hr (by intro hh; cases hh)

/-- pFCT is closed as a destination from its activation on -/
theorem pfct_one_way (P : Params) (db : DB) (h : Nat) (rates avgs : TMap) (t : Tx)
    (hc : t.isConversion P = true) (hf : (t.inAmount : Int) ≤ db.bal t.inAddr t.inType) (hne : rates.isEmpty = false)
    (hr : rates.get t.inType ≠ 0 ∧ rates.get t.conversion ≠ 0)
    (hact : h ≥ P.act.oneWayFCT) (hdst : t.conversion = tFCT) :
    verdict P db h (some rates) (some avgs) [t] = .reject (-3) := by
  rw [admission_table P db h rates avgs t hc]
  unfold admitSpec
  have h1 : ¬ (t.inAmount : Int) > db.bal t.inAddr t.inType := by omega
  have h2 : ¬ (rates.isEmpty = true) := by simp [hne]
  have h3 : ¬ (rates.get t.inType = 0 ∨ rates.get t.conversion = 0) := by omega
  rw [if_neg h1, if_neg h2, if_neg h3, if_pos ⟨hact, hdst⟩]

/-- the small-cap assets and PEG are closed as destinations from their activation on -/
theorem small_assets_one_way (P : Params) (db : DB) (h : Nat) (rates avgs : TMap) (t : Tx)
    (hc : t.isConversion P = true) (hf : (t.inAmount : Int) ≤ db.bal t.inAddr t.inType) (hne : rates.isEmpty = false)
    (hr : rates.get t.inType ≠ 0 ∧ rates.get t.conversion ≠ 0)
    (hnf : ¬ (h ≥ P.act.oneWayFCT ∧ t.conversion = tFCT))
    (hact : h ≥ P.act.oneWaySmall) (hdst : P.oneWaySet.contains t.conversion = true) :
    verdict P db h (some rates) (some avgs) [t] = .reject (-5) := by
  rw [admission_table P db h rates avgs t hc]
  unfold admitSpec
  have h1 : ¬ (t.inAmount : Int) > db.bal t.inAddr t.inType := by omega
  have h2 : ¬ (rates.isEmpty = true) := by simp [hne]
  have h3 : ¬ (rates.get t.inType = 0 ∨ rates.get t.conversion = 0) := by omega
  rw [if_neg h1, if_neg h2, if_neg h3, if_neg hnf, if_pos ⟨hact, hdst⟩]

/-- a zero rate on either side refuses the conversion -/
theorem zero_rate_rejected (P : Params) (db : DB) (h : Nat) (rates avgs : TMap) (t : Tx)
    (hc : t.isConversion P = true) (hf : (t.inAmount : Int) ≤ db.bal t.inAddr t.inType) (hne : rates.isEmpty = false)
    (hz : rates.get t.inType = 0 ∨ rates.get t.conversion = 0) :
    verdict P db h (some rates) (some avgs) [t] = .reject (-4) := by
  rw [admission_table P db h rates avgs t hc]
  unfold admitSpec
  have h1 : ¬ (t.inAmount : Int) > db.bal t.inAddr t.inType := by omega
  have h2 : ¬ (rates.isEmpty = true) := by simp [hne]
  rw [if_neg h1, if_neg h2, if_pos hz]

/-- once averaging is active an unavailable average drops the conversion without any effect -/
theorem unavailable_average_dropped (P : Params) (db : DB) (h : Nat) (rates avgs : TMap) (t : Tx)
    (hc : t.isConversion P = true) (hf : (t.inAmount : Int) ≤ db.bal t.inAddr t.inType) (hne : rates.isEmpty = false)
    (hr : rates.get t.inType ≠ 0 ∧ rates.get t.conversion ≠ 0)
    (hnf : ¬ (h ≥ P.act.oneWayFCT ∧ t.conversion = tFCT))
    (hns : ¬ (h ≥ P.act.oneWaySmall ∧ P.oneWaySet.contains t.conversion = true))
    (hp : h ≥ P.act.pip10) (ha : avgs.get t.inType = 0 ∨ avgs.get t.conversion = 0) :
    verdict P db h (some rates) (some avgs) [t] = .dropped := by
  rw [admission_table P db h rates avgs t hc]
  unfold admitSpec
  have h1 : ¬ (t.inAmount : Int) > db.bal t.inAddr t.inType := by omega
  have h3 : ¬ (rates.get t.inType = 0 ∨ rates.get t.conversion = 0) := by omega
  have hcv : convert P.act.pip10 h (toInt64 t.inAmount) (rates.get t.inType) (avgs.get t.inType)
      (rates.get t.conversion) (avgs.get t.conversion) = none := by
    unfold convert
    by_cases hn : toInt64 t.inAmount < 0
    · simp [hn]
    · have : h ≥ P.act.pip10 ∧ (avgs.get t.inType = 0 ∨ avgs.get t.conversion = 0) := ⟨hp, ha⟩
      simp [hn, h3, this]
  have h2 : ¬ (rates.isEmpty = true) := by simp [hne]
  rw [if_neg h1, if_neg h2, if_neg h3, if_neg hnf, if_neg hns, hcv]

/-- every other well-formed conversion with sufficient funds is executed -/
theorem admissible_funded_executes (P : Params) (db : DB) (h : Nat) (rates avgs : TMap) (t : Tx) (out : Int)
    (hc : t.isConversion P = true) (hf : (t.inAmount : Int) ≤ db.bal t.inAddr t.inType) (hne : rates.isEmpty = false)
    (hr : rates.get t.inType ≠ 0 ∧ rates.get t.conversion ≠ 0)
    (hnf : ¬ (h ≥ P.act.oneWayFCT ∧ t.conversion = tFCT))
    (hns : ¬ (h ≥ P.act.oneWaySmall ∧ P.oneWaySet.contains t.conversion = true))
    (hcv : convert P.act.pip10 h (toInt64 t.inAmount) (rates.get t.inType) (avgs.get t.inType)
      (rates.get t.conversion) (avgs.get t.conversion) = some out) :
    verdict P db h (some rates) (some avgs) [t] = .apply := by
  rw [admission_table P db h rates avgs t hc]
  unfold admitSpec
  have h1 : ¬ (t.inAmount : Int) > db.bal t.inAddr t.inType := by omega
  have h3 : ¬ (rates.get t.inType = 0 ∨ rates.get t.conversion = 0) := by omega
  have h2 : ¬ (rates.isEmpty = true) := by simp [hne]
  rw [if_neg h1, if_neg h2, if_neg h3, if_neg hnf, if_neg hns, hcv]

/-- any conversion into PEG is invalid from PegNet 2.0 on (`ValidatePegTx`) -/
theorem peg_destination_invalid (P : Params) (e : TxEntry) (v : Nat) (txs : List Tx)
    (hp : e.parsed = some (v, txs)) (t : Tx) (ht : t ∈ txs) (hpeg : t.conversion = tPEG) :
    e.validPegTx P = false := by
  unfold TxEntry.validPegTx
  rw [hp]
  simp only
  have : txs.all (fun t => t.conversion != tPEG) = false := by
    rw [List.all_eq_false]
    exact ⟨t, ht, by simp [hpeg]⟩
  simp [this]

/-- regenerated facts: the one-way destination set, its guard and the reject codes are what the
    model uses (`Params.oneWaySet` is filled from the same extraction by the harness) -/
theorem one_way_set_matches_source :
    Generated.oneWayNames = ["PEG", "pDCR", "pDGB", "pDOGE", "pHBAR", "pONT", "pRVN", "pBAT", "pALGO", "pBIF", "pETB",
      "pKES", "pNGN", "pRWF", "pTZS", "pUGX"] ∧
    Generated.oneWayGuard = "currentHeight >= config.OneWaySmallAssetsConversions" ∧
    (Generated.rejectInsufficient, Generated.rejectPFCTOneWay, Generated.rejectZeroRates, Generated.rejectSmallOneWay) = (-1, -3, -4, -5) ∧
    Generated.rejectMap = [("InsufficientBalanceErr", "InsufficientBalanceErrInt"), ("PFCTOneWayError", "PFCTOneWayErrorInt"),
      ("PSMALLOneWayError", "PSMALLOneWayErrorInt"), ("ZeroRatesError", "ZeroRatesErrorInt")] := by decide

end Pegnet.C13

#print axioms Pegnet.C13.admission_table
#print axioms Pegnet.C13.forbidden_destination_no_effect
#print axioms Pegnet.C13.pfct_one_way
#print axioms Pegnet.C13.small_assets_one_way
#print axioms Pegnet.C13.zero_rate_rejected
#print axioms Pegnet.C13.unavailable_average_dropped
#print axioms Pegnet.C13.admissible_funded_executes
#print axioms Pegnet.C13.peg_destination_invalid
#print axioms Pegnet.C13.one_way_set_matches_source
