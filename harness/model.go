package main

// The Lean model behind its line protocol, and the encoding of a block (plus the oracle answers
// of the external libraries: graders, signature validation, JSON decoding) into that protocol.

import (
	"bufio"
	"encoding/hex"
	"encoding/json"
	"fmt"
	"io"
	"os"
	"os/exec"
	"strconv"
	"strings"

	"github.com/Factom-Asset-Tokens/factom"
	"github.com/Factom-Asset-Tokens/factom/fat103"
	"github.com/pegnet/pegnet/modules/grader"
	"github.com/pegnet/pegnet/modules/graderStake"
	"github.com/pegnet/pegnet/modules/opr"
	"github.com/pegnet/pegnetd/fat/fat2"
	"github.com/pegnet/pegnetd/node"
	"github.com/pegnet/pegnetd/node/conversions"
	"github.com/pegnet/pegnetd/node/pegnet"
)

type Model struct {
	cmd   *exec.Cmd
	in    io.WriteCloser
	out   *bufio.Reader
	Trace []string // every line sent (the replay of the model side)
	Lines int
}

func driverPath() string {
	if p := os.Getenv("VERIF_DRIVER"); p != "" {
		return p
	}
	return "/verif/lean/.lake/build/bin/driver"
}

func StartModel() (*Model, error) {
	cmd := exec.Command(driverPath())
	in, err := cmd.StdinPipe()
	if err != nil {
		return nil, err
	}
	outp, err := cmd.StdoutPipe()
	if err != nil {
		return nil, err
	}
	cmd.Stderr = os.Stderr
	if err := cmd.Start(); err != nil {
		return nil, err
	}
	return &Model{cmd: cmd, in: in, out: bufio.NewReaderSize(outp, 1<<20)}, nil
}

func (m *Model) Close() {
	m.in.Close()
	m.cmd.Wait()
}

// Ask sends one line and reads one answer line.
func (m *Model) Ask(line string) string {
	m.Trace = append(m.Trace, line)
	m.Lines++
	if _, err := io.WriteString(m.in, line+"\n"); err != nil {
		panic("model driver write: " + err.Error())
	}
	ans, err := m.out.ReadString('\n')
	if err != nil {
		panic("model driver read: " + err.Error() + " after " + line)
	}
	ans = strings.TrimRight(ans, "\n")
	if strings.HasPrefix(ans, "bad-op") {
		panic("model driver rejected line: " + line + " -> " + ans)
	}
	return ans
}

func (m *Model) Must(line string) {
	if a := m.Ask(line); a != "ok" {
		panic("model driver: " + line + " -> " + a)
	}
}

func (m *Model) Dump() []string {
	m.Trace = append(m.Trace, "dump")
	io.WriteString(m.in, "dump\n")
	var out []string
	for {
		l, err := m.out.ReadString('\n')
		if err != nil {
			panic("model driver read: " + err.Error())
		}
		l = strings.TrimRight(l, "\n")
		if l == "." {
			break
		}
		out = append(out, l)
	}
	return Canon(out)
}

func addrHex(s string) string {
	a, err := factom.NewFAAddress(s)
	if err != nil {
		panic(err)
	}
	return hx(a[:])
}

// ParamsLine renders the configuration the implementation is currently running with.
func ParamsLine(s Setup) string {
	a := s.Acts
	var tick []string
	for i := 1; i < int(fat2.PTickerMax); i++ {
		tick = append(tick, fat2.PTicker(i).String())
	}
	var oneway []string
	for _, t := range oneWayTickers() {
		oneway = append(oneway, strconv.Itoa(int(t)))
	}
	var devs []string
	for _, d := range node.DeveloperRewardAddreses {
		pct := int64(d.DevRewardPct)
		if float64(pct) != d.DevRewardPct {
			panic("developer percentage is not integral: the model does not cover float rounding")
		}
		devs = append(devs, fmt.Sprintf("%s:%d", addrHex(d.DevAddress), pct))
	}
	var mint []string
	for _, m := range node.MintTotalSupplyMap {
		mint = append(mint, fmt.Sprintf("%d:%d", int(m.Ticker), m.Amount))
	}
	cb := factom.FsAddress{}.FAAddress()
	var zero factom.FAAddress
	return fmt.Sprintf("params pegnet=%d gradingV2=%d txConv=%d pegPricing=%d oneWayFCT=%d convLimit=%d pegFloat=%d rcde=%d v4=%d v20=%d devRewards=%d sprSig=%d oneWaySmall=%d v202=%d v204=%d v204Burn=%d pip10=%d "+
		"tickerMax=%d tickers=%s oneway=%s snapshotRate=%d holders=%d devsPerBlock=%d bankBase=%d avgPeriod=%d avgRequired=%d syncVersion=%d devs=%s mint=%s burn=%s oldburn=%s mintaddr=%s coinbase=%s zero=%s forks=%s",
		a.Pegnet, a.GradingV2, a.TxConv, a.PegPricing, a.OneWayFCT, a.ConvLimit, a.PegFloat, a.RCDE, a.V4, a.V20, a.DevRewards, a.SprSig, a.OneWaySmall, a.V202, a.V204, a.V204Burn, a.PIP10,
		int(fat2.PTickerMax), strings.Join(tick, ","), strings.Join(oneway, ","), pegnet.SnapshotRate, uint64(conversions.PerBlockAssetHolders), uint64(conversions.PerBlockDevelopers),
		uint64(pegnet.BankBaseAmount), node.AveragePeriod, node.AverageRequired, pegnet.PegnetdSyncVersion,
		strings.Join(devs, ","), strings.Join(mint, ","), addrHex(node.GlobalBurnAddress), addrHex(node.GlobalOldBurnAddress), addrHex(node.GlobalMintAddress),
		hx(cb[:]), hx(zero[:]), forksStr())
}

func forksStr() string {
	var parts []string
	for _, f := range pegnet.Hardforks {
		parts = append(parts, fmt.Sprintf("%d:%d", f.ActivationHeight, f.MinimumVersion))
	}
	if len(parts) == 0 {
		return "-"
	}
	return strings.Join(parts, ",")
}

// oneWayTickers is the destination set of the `OneWaySmallAssetsConversions` rule; it is
// regenerated from node/sync.go by the extractor (facts.json) and falls back to the list read at
// design time only when the facts file is absent.
func oneWayTickers() []fat2.PTicker {
	if f := loadFacts(); f != nil && len(f.OneWaySet) > 0 {
		var out []fat2.PTicker
		for _, name := range f.OneWaySet {
			out = append(out, fat2.StringToTicker(name))
		}
		return out
	}
	panic("facts.json missing: run the extractor first")
}

func optAddrHex(s string) string {
	a, err := factom.NewFAAddress(s)
	if err != nil {
		return "-"
	}
	return hx(a[:])
}

func assetsStr(as []opr.AssetUint) string {
	var sb strings.Builder
	fmt.Fprintf(&sb, "%d", len(as))
	for _, a := range as {
		fmt.Fprintf(&sb, " %s %d", hexOrDash(a.Name), a.Value)
	}
	return sb.String()
}

func oprWStr(o *grader.GradingOPR) string {
	return fmt.Sprintf("%s %d %d %s %s %s", hx(o.EntryHash), o.Payout(), o.Position(), hexOrDash(o.OPR.GetID()),
		hexOrDash(o.OPR.GetAddress()), optAddrHex(o.OPR.GetAddress()))
}

// FeedBlock sends the block to the model, answering its grader queries with the real libraries.
func (m *Model) FeedBlock(b *BlockSpec) string {
	m.Must(fmt.Sprintf("begin %d %d", b.Height, b.Time.Unix()))
	// OPR
	if len(b.OPR) == 0 {
		m.Must("opr absent")
	} else {
		q := strings.Fields(m.Ask("oprq"))
		ver, _ := strconv.Atoi(q[1])
		var prev []string
		prevErr := false
		if q[2] != "-" {
			raw, _ := hex.DecodeString(q[2])
			if err := json.Unmarshal(raw, &prev); err != nil {
				prevErr = true
			}
		}
		g, err := grader.NewGrader(uint8(ver), int32(b.Height), prev)
		if prevErr || err != nil {
			msg := "previous winners"
			if err != nil {
				msg = err.Error()
			}
			m.Must("opr err " + hexOrDash(msg))
		} else {
			for _, e := range b.OPR {
				ext := make([][]byte, len(e.ExtIDs))
				for i := range e.ExtIDs {
					ext[i] = e.ExtIDs[i]
				}
				g.AddOPR(e.Hash[:], ext, e.Content)
			}
			gb := g.Grade()
			sh, _ := json.Marshal(gb.WinnersShortHashes())
			var sb strings.Builder
			fmt.Fprintf(&sb, "opr graded %s %d %d %d", hexOrDash(string(sh)), gb.Version(), gb.Cutoff(), gb.Count())
			fmt.Fprintf(&sb, " %d", len(gb.Graded()))
			for _, o := range gb.Graded() {
				sb.WriteString(" " + oprWStr(o))
			}
			w := gb.Winners()
			fmt.Fprintf(&sb, " %d", len(w))
			for _, o := range w {
				sb.WriteString(" " + oprWStr(o))
			}
			if len(w) > 0 {
				sb.WriteString(" " + assetsStr(w[0].OPR.GetOrderedAssetsUint()))
			} else {
				sb.WriteString(" 0")
			}
			sb.WriteString(" " + b.OPRKeyMR)
			m.Must(sb.String())
		}
	}
	// SPR
	if len(b.SPR) == 0 {
		m.Must("spr absent")
	} else {
		var sb strings.Builder
		fmt.Fprintf(&sb, "sprq %d", len(b.SPR))
		for _, e := range b.SPR {
			if len(e.ExtIDs) < 2 {
				sb.WriteString(" -")
			} else {
				sb.WriteString(" " + hexOrDash(string(e.ExtIDs[1])))
			}
		}
		q := strings.Fields(m.Ask(sb.String()))
		ver, _ := strconv.Atoi(q[1])
		if q[2] == "panic" {
			m.Must("spr panic " + hexOrDash("node/spr.go:GradeS:extids[1]"))
		} else {
			g, err := graderStake.NewGrader(uint8(ver), int32(b.Height))
			if err != nil {
				m.Must("spr err " + hexOrDash(err.Error()))
			} else {
				n, _ := strconv.Atoi(q[2])
				for i := 0; i < n; i++ {
					idx, _ := strconv.Atoi(q[3+i])
					e := b.SPR[idx]
					ext := make([][]byte, len(e.ExtIDs))
					for j := range e.ExtIDs {
						ext[j] = e.ExtIDs[j]
					}
					g.AddSPR(e.Hash[:], ext, e.Content)
				}
				gb := g.Grade()
				w := gb.Winners()
				var sb strings.Builder
				fmt.Fprintf(&sb, "spr graded %d", len(w))
				for _, o := range w {
					fmt.Fprintf(&sb, " %s %d %s %s", hx(o.EntryHash), o.Payout(), hexOrDash(o.SPR.GetAddress()), optAddrHex(o.SPR.GetAddress()))
				}
				if len(w) > 0 {
					sb.WriteString(" " + assetsStr(w[0].SPR.GetOrderedAssetsUint()))
				} else {
					sb.WriteString(" 0")
				}
				m.Must(sb.String())
			}
		}
	}
	// transactions
	if len(b.TX) > 0 {
		m.Must(fmt.Sprintf("txs %s %d", b.TXKeyMR, len(b.TX)))
		for _, e := range b.TX {
			m.Must(TxLine(e, EntryTime(b.Height).Unix()))
		}
	}
	// factoid block
	m.Must(fmt.Sprintf("fct %s %d", hx(node.BurnRCD[:]), len(b.FCT)+1))
	m.Must(fmt.Sprintf("f %s %d 0 0 0", strings.Repeat("0", 64), BlockTime(b.Height).Unix())) // the coinbase transaction
	for _, t := range b.FCT {
		var sb strings.Builder
		fmt.Fprintf(&sb, "f %s %d %d", hx(t.TransactionID[:]), t.TimestampSalt.Unix(), len(t.FCTInputs))
		for _, io := range t.FCTInputs {
			fmt.Fprintf(&sb, " %s %d", hx(io.Address[:]), io.Amount)
		}
		fmt.Fprintf(&sb, " %d %d", len(t.FCTOutputs), len(t.ECOutputs))
		for _, io := range t.ECOutputs {
			fmt.Fprintf(&sb, " %s %d", hx(io.Address[:]), io.Amount)
		}
		m.Must(sb.String())
	}
	if len(b.StakeOrder) > 0 {
		m.Must("stakeorder " + strings.Join(b.StakeOrder, " "))
	}
	return m.Ask("end")
}

func (m *Model) DumpLight() []string {
	m.Trace = append(m.Trace, "dumplight")
	io.WriteString(m.in, "dumplight\n")
	var out []string
	for {
		l, err := m.out.ReadString('\n')
		if err != nil {
			panic("model driver read: " + err.Error())
		}
		l = strings.TrimRight(l, "\n")
		if l == "." {
			break
		}
		out = append(out, l)
	}
	return out
}

// TxLine describes a transaction-chain entry to the model: the JSON decoding done by the real
// fat2 code (structure only) and the verdicts of fat103.Validate under both flag sets.
func TxLine(e factom.Entry, ts int64) string {
	var sb strings.Builder
	tb := fat2.TransactionBatch{Entry: e}
	tb.Entry.Timestamp = timeUnix(ts)
	parsed := tb.UnmarshalJSON(e.Content) == nil
	v1, ve := 0, 0
	if parsed && len(tb.Transactions) > 0 {
		inputs := func() map[factom.Bytes32]struct{} {
			m := map[factom.Bytes32]struct{}{}
			for _, tx := range tb.Transactions {
				m[factom.Bytes32(tx.Input.Address)] = struct{}{}
			}
			return m
		}
		if fat103.Validate(tb.Entry, inputs(), factom.R_RCD1) == nil {
			v1 = 1
		}
		if fat103.Validate(tb.Entry, inputs(), factom.R_RCD1|factom.R_RCDe) == nil {
			ve = 1
		}
	}
	fmt.Fprintf(&sb, "tx %s %d %d %d", hx(e.Hash[:]), ts, v1, ve)
	if !parsed {
		sb.WriteString(" -")
		return sb.String()
	}
	fmt.Fprintf(&sb, " %d %d", tb.Version, len(tb.Transactions))
	for _, tx := range tb.Transactions {
		fmt.Fprintf(&sb, " %s %d %d %d %d", hx(tx.Input.Address[:]), int(tx.Input.Type), tx.Input.Amount, int(tx.Conversion), len(tx.Transfers))
		for _, tr := range tx.Transfers {
			fmt.Fprintf(&sb, " %s %d", hx(tr.Address[:]), tr.Amount)
		}
	}
	return sb.String()
}
