import Proofs.LivenessHeld
import Proofs.Payouts
/-
  C08 / C16: the bank pass never fails on conversions with distinct keys.
-/
namespace Pegnet

/-- succeeds from every state and leaves the bank table alone -/
def SafeB {α} (m : LM α) : Prop := ∀ s, ∃ a s', m s = .ok a s' ∧ s'.bank = s.bank

namespace SafeB
variable {α β : Type}
theorem pure' (a : α) : SafeB (M.pure a : LM α) := fun s => ⟨a, s, rfl, rfl⟩
theorem bind {m : LM α} {f : α → LM β} (hm : SafeB m) (hf : ∀ a, SafeB (f a)) : SafeB (m >>= f) := by
  intro s
  obtain ⟨a, s1, h1, b1⟩ := hm s
  obtain ⟨b, s2, h2, b2⟩ := hf a s1
  exact ⟨b, s2, by rw [M.bind_run, h1]; exact h2, by rw [b2, b1]⟩
theorem guarded {g : DB → Option Failure} {u : DB → DB} (hg : ∀ s, g s = none) (hu : ∀ s, (u s).bank = s.bank) : SafeB (M.guarded g u) := by
  intro s
  exact ⟨(), u s, by simp only [M.guarded, hg s], hu s⟩
theorem forEach {l : List α} {f : α → LM Unit} (hf : ∀ a ∈ l, SafeB (f a)) : SafeB (M.forEach l f) := by
  induction l with
  | nil => exact pure' ()
  | cons x xs ih =>
    exact bind (m := f x) (hf x List.mem_cons_self) (fun _ => ih (fun a ha => hf a (List.mem_cons_of_mem _ ha)))
end SafeB

theorem addBal_safeB (P : Params) (a : Addr) (t : Ticker) (v : Nat) (ht : validTicker P t = true) (hv : v ≤ maxInt64) :
    SafeB (addBal P a t v) :=
  SafeB.guarded (fun _ => by simp [ht]; omega) (fun _ => rfl)

theorem convertD_le (pip10 h : Nat) (amt : Int) (fr fa tr ta : Nat) : convertD pip10 h amt fr fa tr ta ≤ (maxInt64 : Int) := by
  unfold convertD
  cases hc : convert pip10 h amt fr fa tr ta with
  | none => simp [maxInt64]
  | some x => simpa using convert_le hc

/-- paying one request never fails: known assets, a yield within int64 -/
theorem payPegReq_safe (P : Params) (h : Nat) (rates : TMap) (r : PegReq) (y : Nat)
    (hc : validTicker P r.tx.conversion = true) (ht : validTicker P r.tx.inType = true) (hy : y ≤ maxInt64) :
    SafeB (payPegReq P h rates r y) := by
  unfold payPegReq
  refine SafeB.bind (SafeB.guarded (fun _ => rfl) (fun _ => rfl)) (fun _ => ?_)
  refine SafeB.bind (addBal_safeB P _ _ _ hc hy) (fun _ => ?_)
  apply addBal_safeB P _ _ _ ht
  have h1 := convertD_le P.act.pip10 h
    (convertD P.act.pip10 h (toInt64 r.tx.inAmount) (rates.get r.tx.inType) (rates.get r.tx.inType) (rates.get r.tx.conversion) (rates.get r.tx.conversion) - toInt64 y)
    (rates.get r.tx.conversion) (rates.get r.tx.conversion) (rates.get r.tx.inType) (rates.get r.tx.inType)
  unfold refund
  dsimp only
  omega


theorem hasDupKey_nodup : ∀ ks : List TxKey, hasDupKey ks = false → ks.Nodup := by
  intro ks
  induction ks with
  | nil => intro _; exact List.nodup_nil
  | cons k rest ih =>
    intro hd
    simp only [hasDupKey, Bool.or_eq_false_iff] at hd
    refine List.nodup_cons.2 ⟨?_, ih hd.2⟩
    intro hin
    have := hd.1
    simp [List.contains_iff_mem, hin] at this

/-- with distinct keys no request is paid more than the bank -/
theorem payout_le_bank (bank : Nat) (reqs : List (TxKey × Nat)) (hb : bank ≤ maxUint64)
    (hn : (reqs.map (·.1)).Nodup) : ∀ p ∈ payouts bank reqs, p.2 ≤ bank := by
  intro p hp
  by_cases hne : reqs = []
  · rw [hne] at hp; simp [payouts] at hp
  · have h1 := mem_sumReq_le hp
    rw [payouts_sum bank reqs hb hn hne] at h1
    split at h1 <;> omega

/-- **The bank pass never fails** on batches whose transactions are all conversions into a known
    asset (a genuine PEG request is one), with distinct (entry, index) keys, a bank within int64 and —
    in the bank-table era — the block's bank row in place. The excluded shape (a TRANSFER inside a
    batch that also holds a PEG request) is the recorded finding of C08: it is "paid" in ticker 0. -/
theorem recordPegRequests_never_fails (P : Params) (h : Nat) (rates avgs : TMap) (batches : List TxEntry)
    (bank : Nat) (bh : Int) (s : DB)
    (hkeys : hasDupKey ((pegRequests P h rates avgs batches).map (·.key)) = false)
    (hconv : ∀ r ∈ pegRequests P h rates avgs batches, validTicker P r.tx.conversion = true ∧ validTicker P r.tx.inType = true)
    (hbank : bank ≤ maxInt64)
    (hrow : bh ≥ (P.act.v4 : Int) → s.bank.any (·.height == bh) = true) :
    ∃ s', recordPegRequests P h rates avgs batches bank bh s = .ok () s' := by
  unfold recordPegRequests
  dsimp only
  rw [if_neg (by simp [hkeys])]
  simp only [M.bind_run, M.pure_run]
  have hnd : (((pegRequests P h rates avgs batches).map fun r => (r.key, r.requested)).map (·.1)).Nodup := by
    have hk : ((pegRequests P h rates avgs batches).map fun r => (r.key, r.requested)).map (·.1) =
        (pegRequests P h rates avgs batches).map (·.key) := by
      simp [List.map_map, Function.comp]
    rw [hk]; exact hasDupKey_nodup _ hkeys
  have hloop : SafeB (M.forEach ((pegRequests P h rates avgs batches).zip
      (payouts bank ((pegRequests P h rates avgs batches).map fun r => (r.key, r.requested))))
      (fun rp => payPegReq P h rates rp.1 rp.2.2)) := by
    apply SafeB.forEach
    intro rp hrp
    have hr := (List.of_mem_zip hrp).1
    have hp := (List.of_mem_zip hrp).2
    have hy := payout_le_bank bank _ (by simp [maxInt64, maxUint64] at *; omega) hnd rp.2 hp
    exact payPegReq_safe P h rates rp.1 rp.2.2 (hconv rp.1 hr).1 (hconv rp.1 hr).2 (by omega)
  obtain ⟨_, s1, h1, hb1⟩ := hloop s
  rw [h1]
  dsimp only
  split
  · rename_i hv4
    simp only [updateBank, M.guarded]
    have := hrow hv4
    rw [← hb1] at this
    simp only [this, if_true]
    exact ⟨_, rfl⟩
  · exact ⟨s1, rfl⟩

end Pegnet
