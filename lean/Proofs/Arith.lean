import Pegnet.Arith
/-
  Helper lemmas about `convert`, `refund`, `payoutBig`, `payouts`.
-/
namespace Pegnet

/-- source rate actually used by `convert` -/
def srcRate (pip10 h fromRate fromAvg : Nat) : Nat :=
  if h ≥ pip10 ∧ fromRate > fromAvg then fromAvg else fromRate
/-- destination rate actually used by `convert` -/
def dstRate (pip10 h toRate toAvg : Nat) : Nat :=
  if h ≥ pip10 ∧ toRate < toAvg then toAvg else toRate

theorem srcRate_le (pip10 h fr fa : Nat) : srcRate pip10 h fr fa ≤ fr := by
  unfold srcRate; split <;> omega

theorem dstRate_ge (pip10 h tr ta : Nat) : tr ≤ dstRate pip10 h tr ta := by
  unfold dstRate; split <;> omega

theorem srcRate_pip10 {pip10 h : Nat} (hp : h ≥ pip10) (fr fa : Nat) : srcRate pip10 h fr fa = min fr fa := by
  unfold srcRate; split <;> omega

theorem dstRate_pip10 {pip10 h : Nat} (hp : h ≥ pip10) (tr ta : Nat) : dstRate pip10 h tr ta = max tr ta := by
  unfold dstRate; split <;> omega

theorem srcRate_pre {pip10 h : Nat} (hp : h < pip10) (fr fa : Nat) : srcRate pip10 h fr fa = fr := by
  unfold srcRate; split <;> omega

theorem dstRate_pre {pip10 h : Nat} (hp : h < pip10) (tr ta : Nat) : dstRate pip10 h tr ta = tr := by
  unfold dstRate; split <;> omega

/-- the guard under which `convert` does not fail before the overflow check -/
def ConvGuard (pip10 h : Nat) (amt : Int) (fr fa tr ta : Nat) : Prop :=
  0 ≤ amt ∧ fr ≠ 0 ∧ tr ≠ 0 ∧ (h ≥ pip10 → fa ≠ 0 ∧ ta ≠ 0)

theorem convert_def (pip10 h : Nat) (amt : Int) (fr fa tr ta : Nat) :
    convert pip10 h amt fr fa tr ta =
      if amt < 0 then none
      else if fr = 0 ∨ tr = 0 then none
      else if h ≥ pip10 ∧ (fa = 0 ∨ ta = 0) then none
      else if amt * (srcRate pip10 h fr fa : Int) / (dstRate pip10 h tr ta : Int) ≤ (maxInt64 : Int)
        then some (amt * (srcRate pip10 h fr fa : Int) / (dstRate pip10 h tr ta : Int)) else none := rfl

theorem convert_eq (pip10 h : Nat) (amt : Int) (fr fa tr ta : Nat) (x : Int) :
    convert pip10 h amt fr fa tr ta = some x ↔
      ConvGuard pip10 h amt fr fa tr ta ∧
      x = amt * (srcRate pip10 h fr fa : Int) / (dstRate pip10 h tr ta : Int) ∧ x ≤ (maxInt64 : Int) := by
  rw [convert_def]
  unfold ConvGuard
  generalize srcRate pip10 h fr fa = s
  generalize dstRate pip10 h tr ta = d
  constructor
  · intro hc
    by_cases h1 : amt < 0
    · simp [h1] at hc
    · by_cases h2 : fr = 0 ∨ tr = 0
      · simp [h1, h2] at hc
      · by_cases h3 : h ≥ pip10 ∧ (fa = 0 ∨ ta = 0)
        · simp [h1, h2, h3] at hc
        · by_cases h4 : amt * (s : Int) / (d : Int) ≤ (maxInt64 : Int)
          · simp only [h1, h2, h3, h4, if_false, if_true] at hc
            injection hc with hc
            refine ⟨⟨by omega, by omega, by omega, ?_⟩, hc.symm, hc ▸ h4⟩
            intro hp
            constructor
            · intro hz; exact h3 ⟨hp, Or.inl hz⟩
            · intro hz; exact h3 ⟨hp, Or.inr hz⟩
          · simp [h1, h2, h3, h4] at hc
  · rintro ⟨⟨h0, h1, h2, h3⟩, hx, hle⟩
    have e1 : ¬ amt < 0 := by omega
    have e2 : ¬ (fr = 0 ∨ tr = 0) := by omega
    have e3 : ¬ (h ≥ pip10 ∧ (fa = 0 ∨ ta = 0)) := by
      intro ⟨hp, hz⟩
      have := h3 hp
      omega
    subst hx
    simp only [e1, e2, e3, if_false, hle, if_true]

theorem dstRate_pos {pip10 h amt fr fa tr ta} (g : ConvGuard pip10 h amt fr fa tr ta) :
    0 < dstRate pip10 h tr ta := by
  have := dstRate_ge pip10 h tr ta
  have := g.2.2.1
  omega

/-- floor characterisation of the result -/
theorem convert_floor {pip10 h : Nat} {amt : Int} {fr fa tr ta : Nat} {x : Int}
    (hc : convert pip10 h amt fr fa tr ta = some x) :
    x * (dstRate pip10 h tr ta : Int) ≤ amt * (srcRate pip10 h fr fa : Int) ∧
    amt * (srcRate pip10 h fr fa : Int) < (x + 1) * (dstRate pip10 h tr ta : Int) := by
  obtain ⟨g, hx, _⟩ := (convert_eq ..).1 hc
  have hd : (0 : Int) < (dstRate pip10 h tr ta : Int) := by
    have := dstRate_pos g; omega
  subst hx
  constructor
  · exact Int.ediv_mul_le _ (by omega)
  · have := Int.lt_ediv_add_one_mul_self (amt * (srcRate pip10 h fr fa : Int)) hd
    simpa using this

theorem convert_nonneg {pip10 h : Nat} {amt : Int} {fr fa tr ta : Nat} {x : Int}
    (hc : convert pip10 h amt fr fa tr ta = some x) : 0 ≤ x := by
  obtain ⟨g, hx, _⟩ := (convert_eq ..).1 hc
  subst hx
  apply Int.ediv_nonneg
  · exact Int.mul_nonneg g.1 (by omega)
  · omega


/-- a conversion never yields more value (at spot rates) than was put in -/
theorem convert_value_le {pip10 h : Nat} {amt : Int} {fr fa tr ta : Nat} {x : Int}
    (hc : convert pip10 h amt fr fa tr ta = some x) :
    x * (tr : Int) ≤ amt * (fr : Int) := by
  have hx0 := convert_nonneg hc
  obtain ⟨g, _, _⟩ := (convert_eq ..).1 hc
  have hfl := (convert_floor hc).1
  have h1 : x * (tr : Int) ≤ x * (dstRate pip10 h tr ta : Int) :=
    Int.mul_le_mul_of_nonneg_left (by have := dstRate_ge pip10 h tr ta; omega) hx0
  have h2 : amt * (srcRate pip10 h fr fa : Int) ≤ amt * (fr : Int) :=
    Int.mul_le_mul_of_nonneg_left (by have := srcRate_le pip10 h fr fa; omega) g.1
  omega

theorem convertD_nonneg (pip10 h : Nat) (amt : Int) (fr fa tr ta : Nat) :
    0 ≤ convertD pip10 h amt fr fa tr ta := by
  unfold convertD
  cases hc : convert pip10 h amt fr fa tr ta with
  | none => simp
  | some x => simpa using convert_nonneg hc

/-- `x, _ := Convert(...)`: the value inequality also holds for the defaulted result when the
    input amount is non-negative -/
theorem convertD_value_le (pip10 h : Nat) (amt : Int) (fr fa tr ta : Nat) (ha : 0 ≤ amt) :
    convertD pip10 h amt fr fa tr ta * (tr : Int) ≤ amt * (fr : Int) := by
  unfold convertD
  cases hc : convert pip10 h amt fr fa tr ta with
  | none => simp; exact Int.mul_nonneg ha (by omega)
  | some x => simpa using convert_value_le hc

theorem convertD_neg (pip10 h : Nat) (amt : Int) (fr fa tr ta : Nat) (ha : amt < 0) :
    convertD pip10 h amt fr fa tr ta = 0 := by
  unfold convertD convert
  simp [ha]

end Pegnet
