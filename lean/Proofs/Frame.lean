import Proofs.Steps
/-
  Frame facts: which tables each part of the block transaction can touch.
-/
namespace Pegnet

/-! ### subBal / recordTx only touch balances, relations and history -/

theorem subBal_step {R : Rel DB} (P : Params) (a : Addr) (t : Ticker) (v : Nat)
    (hadd : Step R (addBal P a t 0)) (hdeb : Step R (debit a t v)) : Step R (subBal P a t v) := by
  unfold subBal
  step_tac

/-- relation: the rate table is untouched -/
abbrev keepRates : Rel DB := keepRel (·.rates)
abbrev keepRels : Rel DB := keepRel (·.rels)
abbrev keepAddrs : Rel DB := keepRel (·.addrs)
abbrev keepHolding : Rel DB := keepRel (·.holding)
abbrev keepBank : Rel DB := keepRel (·.bank)
abbrev keepSync : Rel DB := keepRel (fun db => (db.synced, db.syncVersions))

instance (P a t v) : StepPrim keepRates (subBal P a t v) := ⟨by unfold subBal; step_tac⟩
instance (P a t v) : StepPrim keepRels (subBal P a t v) := ⟨by unfold subBal; step_tac⟩
instance (P a t v) : StepPrim keepHolding (subBal P a t v) := ⟨by unfold subBal; step_tac⟩
instance (P a t v) : StepPrim keepBank (subBal P a t v) := ⟨by unfold subBal; step_tac⟩
instance (P a t v) : StepPrim keepSync (subBal P a t v) := ⟨by unfold subBal; step_tac⟩

instance (P h hash rates avgs idx t) : StepPrim keepRates (recordTx P h hash rates avgs idx t) :=
  ⟨by unfold recordTx; step_tac⟩

end Pegnet
