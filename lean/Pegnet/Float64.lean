import Pegnet.Basic
/-
  Exact IEEE-754 binary64 arithmetic on non-negative normal values, enough for the tolerance-band
  rule of node/sync.go (GetAssetRates / GetAssetRatesV0):
      float64(spr) * (1 ± tol)   compared with   float64(opr).
  A value is `m * 2^e` (m : Nat, e : Int), exactly; every operation rounds to nearest-even with a
  53-bit significand.  No overflow / subnormal can occur for operands ≤ 2^64 and the constants used.
-/
namespace Pegnet

structure F64 where
  m : Nat
  e : Int
  deriving Repr

namespace F64

def pow2 (n : Nat) : Nat := 2 ^ n

/-- round the positive rational `num/den` (den > 0) to the nearest binary64 (ties to even). -/
def roundQ (num den : Nat) : F64 :=
  if num = 0 then ⟨0, 0⟩ else
  let a := Nat.log2 num
  let b := Nat.log2 den
  -- scale so that the integer quotient has at least 54 bits
  let s : Int := 54 + (b : Int) - (a : Int)
  let N := if s ≥ 0 then num * pow2 s.toNat else num
  let D := if s ≥ 0 then den else den * pow2 (-s).toNat
  let q := N / D
  let sticky := decide (N % D ≠ 0)
  let bits := Nat.log2 q + 1
  let shift := bits - 53
  let m0 := q / pow2 shift
  let rem := q % pow2 shift
  let half := pow2 (shift - 1)
  let up := decide (rem > half) || (decide (rem = half) && (sticky || decide (m0 % 2 = 1)))
  let m1 := if up then m0 + 1 else m0
  ⟨m1, (shift : Int) - s⟩

/-- exact value as a rational `num/den`. -/
def num (x : F64) : Nat := if x.e ≥ 0 then x.m * pow2 x.e.toNat else x.m
def den (x : F64) : Nat := if x.e ≥ 0 then 1 else pow2 (-x.e).toNat

def ofNat (n : Nat) : F64 := roundQ n 1
/-- the binary64 nearest to the decimal literal `n / 10^d` (how the Go compiler rounds `0.1`). -/
def ofDecimal (n d : Nat) : F64 := roundQ n (10 ^ d)
def one : F64 := ⟨1, 0⟩

def add (x y : F64) : F64 := roundQ (x.num * y.den + y.num * x.den) (x.den * y.den)
/-- x - y for x ≥ y -/
def sub (x y : F64) : F64 := roundQ (x.num * y.den - y.num * x.den) (x.den * y.den)
def mul (x y : F64) : F64 := roundQ (x.num * y.num) (x.den * y.den)
def le (x y : F64) : Bool := decide (x.num * y.den ≤ y.num * x.den)

end F64

/-- `(float64(opr) >= float64(spr)*(1-tol)) && (float64(opr) <= float64(spr)*(1+tol))`
    with `tol` the binary64 nearest to `tolN / 10^tolD`. -/
def inBand (opr spr tolN tolD : Nat) : Bool :=
  let tol := F64.ofDecimal tolN tolD
  let hi := F64.mul (F64.ofNat spr) (F64.add F64.one tol)
  let lo := F64.mul (F64.ofNat spr) (F64.sub F64.one tol)
  let o := F64.ofNat opr
  F64.le lo o && F64.le o hi

end Pegnet
