#!/bin/bash
# usage: ./seedtest.sh <seeded-dir> <check ids...>   (applies the patch to /repo, runs the checks, reverts)
set -u
d=$(realpath "$1"); shift
if [ -n "$(git -C /repo status --porcelain)" ]; then echo "/repo not clean"; exit 2; fi
git -C /repo apply "$d/patch.diff" || exit 2
trap 'git -C /repo checkout -- . ; git -C /repo status --porcelain' EXIT
for c in "$@"; do
  out=$(cd /verif && ./check "$c" --tier "${TIER:-quick}" 2>&1); rc=$?
  echo "== $c exit=$rc  violations=$(echo "$out" | grep -c '^VIOLATION')"
  echo "$out" | grep '^VIOLATION' | head -4
done
