import Proofs.BatchLemmas
import Pegnet.Generated.Facts
import Proofs.Averages
import Proofs.Process
import Proofs.RestartAvg
/-
  C13 — Conversion admission rules by height.
-/
namespace Pegnet.C13
open Pegnet

/-- the admission rule table, in the order the checks are made -/
def admitSpec (P : Params) (h : Nat) (bal : Int) (rates avgs : TMap) (t : Tx) : Verdict :=
  if (t.inAmount : Int) > bal then .reject (-1)
  else if rates.isEmpty then .failBlock (.uncaught "rates must exist if TransactionBatch contains conversions")
  else if rates.get t.inType = 0 ∨ rates.get t.conversion = 0 then .reject (-4)
  else if h ≥ P.act.oneWayFCT ∧ t.conversion = tFCT then .reject (-3)
  else if h ≥ P.act.oneWaySmall ∧ P.oneWaySet.contains t.conversion then .reject (-5)
  else match convert P.act.pip10 h (toInt64 t.inAmount) (rates.get t.inType) (avgs.get t.inType)
              (rates.get t.conversion) (avgs.get t.conversion) with
    | none => .dropped
    | some _ => .apply

/-- For every source / destination pair, every height, every rate and average map and every
    balance: the outcome of a single-conversion batch is exactly the rule table's. -/
theorem admission_table (P : Params) (db : DB) (h : Nat) (rates avgs : TMap) (t : Tx)
    (hc : t.isConversion P = true) :
    verdict P db h (some rates) (some avgs) [t] = admitSpec P h (db.bal t.inAddr t.inType) rates avgs t := by
  unfold verdict admitSpec
  simp only
  unfold pass1 pass1Tx
  simp only [DB.balances, hc, if_true, Option.getD_some]
  by_cases h1 : (t.inAmount : Int) > db.bal t.inAddr t.inType
  · simp [h1]
  · simp only [h1, if_false]
    by_cases h2 : rates.isEmpty = true
    · simp [h2]
    · simp only [h2, Bool.false_eq_true, if_false]
      by_cases h3 : rates.get t.inType = 0 ∨ rates.get t.conversion = 0
      · simp [h3]
      · simp only [h3, if_false]
        by_cases h4 : h ≥ P.act.oneWayFCT ∧ t.conversion = tFCT
        · simp [h4]
        · simp only [h4, if_false]
          by_cases h5 : h ≥ P.act.oneWaySmall ∧ P.oneWaySet.contains t.conversion = true
          · have hm : t.conversion ∈ P.oneWaySet := by simpa using h5.2
            simp [h5.1, hm]
          · simp only [h5, if_false]
            cases hcv : convert P.act.pip10 h (toInt64 t.inAmount) (rates.get t.inType) (avgs.get t.inType)
                (rates.get t.conversion) (avgs.get t.conversion) with
            | none => simp
            | some out =>
              simp only [pass1]
              unfold pass2
              have : ¬ db.bal t.inAddr t.inType < (t.inAmount : Int) := by omega
              simp only [DB.balances, this, if_false, hc, if_true, Option.getD_some, hcv]
              unfold pass2
              simp

/-- destinations made one-way are refused and the refusal leaves every balance untouched -/
theorem forbidden_destination_no_effect (P : Params) (h : Nat) (e : TxEntry) (rates avgs : TMap) (s s' : DB) (c : Int)
    (hr : applyBatch P h e (some rates) (some avgs) s = .ok (.reject c) s') : s' = s :=
  applyBatch_noop hr (by intro hh; cases hh)

/-- pFCT is closed as a destination from its activation on -/
theorem pfct_one_way (P : Params) (db : DB) (h : Nat) (rates avgs : TMap) (t : Tx)
    (hc : t.isConversion P = true) (hf : (t.inAmount : Int) ≤ db.bal t.inAddr t.inType) (hne : rates.isEmpty = false)
    (hr : rates.get t.inType ≠ 0 ∧ rates.get t.conversion ≠ 0)
    (hact : h ≥ P.act.oneWayFCT) (hdst : t.conversion = tFCT) :
    verdict P db h (some rates) (some avgs) [t] = .reject (-3) := by
  rw [admission_table P db h rates avgs t hc]
  unfold admitSpec
  have h1 : ¬ (t.inAmount : Int) > db.bal t.inAddr t.inType := by omega
  have h2 : ¬ (rates.isEmpty = true) := by simp [hne]
  have h3 : ¬ (rates.get t.inType = 0 ∨ rates.get t.conversion = 0) := by omega
  rw [if_neg h1, if_neg h2, if_neg h3, if_pos ⟨hact, hdst⟩]

/-- the small-cap assets and PEG are closed as destinations from their activation on -/
theorem small_assets_one_way (P : Params) (db : DB) (h : Nat) (rates avgs : TMap) (t : Tx)
    (hc : t.isConversion P = true) (hf : (t.inAmount : Int) ≤ db.bal t.inAddr t.inType) (hne : rates.isEmpty = false)
    (hr : rates.get t.inType ≠ 0 ∧ rates.get t.conversion ≠ 0)
    (hnf : ¬ (h ≥ P.act.oneWayFCT ∧ t.conversion = tFCT))
    (hact : h ≥ P.act.oneWaySmall) (hdst : P.oneWaySet.contains t.conversion = true) :
    verdict P db h (some rates) (some avgs) [t] = .reject (-5) := by
  rw [admission_table P db h rates avgs t hc]
  unfold admitSpec
  have h1 : ¬ (t.inAmount : Int) > db.bal t.inAddr t.inType := by omega
  have h2 : ¬ (rates.isEmpty = true) := by simp [hne]
  have h3 : ¬ (rates.get t.inType = 0 ∨ rates.get t.conversion = 0) := by omega
  rw [if_neg h1, if_neg h2, if_neg h3, if_neg hnf, if_pos ⟨hact, hdst⟩]

/-- a zero rate on either side refuses the conversion -/
theorem zero_rate_rejected (P : Params) (db : DB) (h : Nat) (rates avgs : TMap) (t : Tx)
    (hc : t.isConversion P = true) (hf : (t.inAmount : Int) ≤ db.bal t.inAddr t.inType) (hne : rates.isEmpty = false)
    (hz : rates.get t.inType = 0 ∨ rates.get t.conversion = 0) :
    verdict P db h (some rates) (some avgs) [t] = .reject (-4) := by
  rw [admission_table P db h rates avgs t hc]
  unfold admitSpec
  have h1 : ¬ (t.inAmount : Int) > db.bal t.inAddr t.inType := by omega
  have h2 : ¬ (rates.isEmpty = true) := by simp [hne]
  rw [if_neg h1, if_neg h2, if_pos hz]

/-- once averaging is active an unavailable average drops the conversion without any effect -/
theorem unavailable_average_dropped (P : Params) (db : DB) (h : Nat) (rates avgs : TMap) (t : Tx)
    (hc : t.isConversion P = true) (hf : (t.inAmount : Int) ≤ db.bal t.inAddr t.inType) (hne : rates.isEmpty = false)
    (hr : rates.get t.inType ≠ 0 ∧ rates.get t.conversion ≠ 0)
    (hnf : ¬ (h ≥ P.act.oneWayFCT ∧ t.conversion = tFCT))
    (hns : ¬ (h ≥ P.act.oneWaySmall ∧ P.oneWaySet.contains t.conversion = true))
    (hp : h ≥ P.act.pip10) (ha : avgs.get t.inType = 0 ∨ avgs.get t.conversion = 0) :
    verdict P db h (some rates) (some avgs) [t] = .dropped := by
  rw [admission_table P db h rates avgs t hc]
  unfold admitSpec
  have h1 : ¬ (t.inAmount : Int) > db.bal t.inAddr t.inType := by omega
  have h3 : ¬ (rates.get t.inType = 0 ∨ rates.get t.conversion = 0) := by omega
  have hcv : convert P.act.pip10 h (toInt64 t.inAmount) (rates.get t.inType) (avgs.get t.inType)
      (rates.get t.conversion) (avgs.get t.conversion) = none := by
    unfold convert
    by_cases hn : toInt64 t.inAmount < 0
    · simp [hn]
    · have : h ≥ P.act.pip10 ∧ (avgs.get t.inType = 0 ∨ avgs.get t.conversion = 0) := ⟨hp, ha⟩
      simp [hn, h3, this]
  have h2 : ¬ (rates.isEmpty = true) := by simp [hne]
  rw [if_neg h1, if_neg h2, if_neg h3, if_neg hnf, if_neg hns, hcv]

/-- every other well-formed conversion with sufficient funds is executed -/
theorem admissible_funded_executes (P : Params) (db : DB) (h : Nat) (rates avgs : TMap) (t : Tx) (out : Int)
    (hc : t.isConversion P = true) (hf : (t.inAmount : Int) ≤ db.bal t.inAddr t.inType) (hne : rates.isEmpty = false)
    (hr : rates.get t.inType ≠ 0 ∧ rates.get t.conversion ≠ 0)
    (hnf : ¬ (h ≥ P.act.oneWayFCT ∧ t.conversion = tFCT))
    (hns : ¬ (h ≥ P.act.oneWaySmall ∧ P.oneWaySet.contains t.conversion = true))
    (hcv : convert P.act.pip10 h (toInt64 t.inAmount) (rates.get t.inType) (avgs.get t.inType)
      (rates.get t.conversion) (avgs.get t.conversion) = some out) :
    verdict P db h (some rates) (some avgs) [t] = .apply := by
  rw [admission_table P db h rates avgs t hc]
  unfold admitSpec
  have h1 : ¬ (t.inAmount : Int) > db.bal t.inAddr t.inType := by omega
  have h3 : ¬ (rates.get t.inType = 0 ∨ rates.get t.conversion = 0) := by omega
  have h2 : ¬ (rates.isEmpty = true) := by simp [hne]
  rw [if_neg h1, if_neg h2, if_neg h3, if_neg hnf, if_neg hns, hcv]

/-- any conversion into PEG is invalid from PegNet 2.0 on (`ValidatePegTx`) -/
theorem peg_destination_invalid (P : Params) (e : TxEntry) (v : Nat) (txs : List Tx)
    (hp : e.parsed = some (v, txs)) (t : Tx) (ht : t ∈ txs) (hpeg : t.conversion = tPEG) :
    e.validPegTx P = false := by
  unfold TxEntry.validPegTx
  rw [hp]
  simp only
  have : txs.all (fun t => t.conversion != tPEG) = false := by
    rw [List.all_eq_false]
    exact ⟨t, ht, by simp [hpeg]⟩
  simp [this]

/-- regenerated facts: the one-way destination set, its guard and the reject codes are what the
    model uses (`Params.oneWaySet` is filled from the same extraction by the harness) -/
theorem one_way_set_matches_source :
    Generated.oneWayNames = ["PEG", "pDCR", "pDGB", "pDOGE", "pHBAR", "pONT", "pRVN", "pBAT", "pALGO", "pBIF", "pETB",
      "pKES", "pNGN", "pRWF", "pTZS", "pUGX"] ∧
    Generated.oneWayGuard = "currentHeight >= config.OneWaySmallAssetsConversions" ∧
    (Generated.rejectInsufficient, Generated.rejectPFCTOneWay, Generated.rejectZeroRates, Generated.rejectSmallOneWay) = (-1, -3, -4, -5) ∧
    Generated.rejectMap = [("InsufficientBalanceErr", "InsufficientBalanceErrInt"), ("PFCTOneWayError", "PFCTOneWayErrorInt"),
      ("PSMALLOneWayError", "PSMALLOneWayErrorInt"), ("ZeroRatesError", "ZeroRatesErrorInt")] := by decide

/-! ### "whose average is unavailable": when the node publishes an average -/

/-- the averaging cache of the node is consistent (series within the period, stored averages =
    the averages of the stored series) along every process run: attempts that commit or fail,
    killed iterations that did or did not reach the averaging call, restarts -/
theorem cache_consistent_along_every_run (P : Params) (hp : 0 < P.avgPeriod) (ch : Nat → Block) (es : List Ev) :
    CacheOK P (runEvs P ch (freshNode P) es).cache := by
  suffices h : ∀ n : Node, CacheOK P n.cache → CacheOK P (runEvs P ch n es).cache from h _ (cacheOK_empty P)
  induction es with
  | nil => intro n hn; exact hn
  | cons e es ih =>
    intro n hn
    show CacheOK P (runEvs P ch (stepEv P ch n e) es).cache
    apply ih
    cases e with
    | attempt =>
      show CacheOK P (applyBlock P n _).1.cache
      unfold applyBlock
      dsimp only
      split <;> (dsimp only; split)
      · exact (getAverages_ok P hp _ n.cache _ hn).1
      · exact hn
      · exact (getAverages_ok P hp _ n.cache _ hn).1
      · exact hn
    | aborted t =>
      cases t
      · exact hn
      · exact (getAverages_ok P hp _ n.cache _ hn).1
    | restart => exact cacheOK_empty P

/-- **An average is published only on enough usable quotes.** Whichever path the averaging call
    takes (cache hit, one more height, full reload), a non-zero average for `t` means: the window
    the node holds for `t` has at most `AveragePeriod` samples, at least `AverageRequired` of them
    non-zero, and the average is their mean. -/
theorem average_published_only_with_enough_quotes (P : Params) (hp : 0 < P.avgPeriod) (db : DB) (c : AvgCache)
    (height : Nat) (hc : CacheOK P c) (t : Ticker) (hne : (getAverages P db c height).2.get t ≠ 0) :
    ∃ p ∈ (getAverages P db c height).1.data, p.1 = t ∧ p.2.length ≤ P.avgPeriod ∧
      P.avgRequired ≤ nonZero p.2 ∧
      (getAverages P db c height).2.get t = (p.2.sum % 18446744073709551616) / p.2.length :=
  published_average_has_quotes P hp db c height hc t hne

/-- **… and a conversion on a thin window is not executed.** From the PIP-10 activation on, with
    the averages the node computes at `fromH`: if no series of the source asset (or none of the
    destination asset) in the node's window has `AverageRequired` non-zero quotes, an otherwise
    admissible, funded conversion is dropped — no balance changes. -/
theorem thin_window_conversion_dropped (P : Params) (hp0 : 0 < P.avgPeriod) (db cdb : DB) (c : AvgCache) (fromH h : Nat)
    (rates : TMap) (t : Tx) (hcache : CacheOK P c)
    (hc : t.isConversion P = true) (hf : (t.inAmount : Int) ≤ db.bal t.inAddr t.inType) (hne : rates.isEmpty = false)
    (hr : rates.get t.inType ≠ 0 ∧ rates.get t.conversion ≠ 0)
    (hnf : ¬ (h ≥ P.act.oneWayFCT ∧ t.conversion = tFCT))
    (hns : ¬ (h ≥ P.act.oneWaySmall ∧ P.oneWaySet.contains t.conversion = true))
    (hp : h ≥ P.act.pip10)
    (hthin : (∀ p ∈ (getAverages P cdb c fromH).1.data, p.1 = t.inType → nonZero p.2 < P.avgRequired) ∨
             (∀ p ∈ (getAverages P cdb c fromH).1.data, p.1 = t.conversion → nonZero p.2 < P.avgRequired)) :
    verdict P db h (some rates) (some (getAverages P cdb c fromH).2) [t] = .dropped := by
  apply unavailable_average_dropped P db h rates _ t hc hf hne hr hnf hns hp
  rcases hthin with hthin | hthin
  · left
    apply Classical.byContradiction
    intro hx
    obtain ⟨p, hm, hk, _, hq, _⟩ := published_average_has_quotes P hp0 cdb c fromH hcache t.inType hx
    exact absurd (hthin p hm hk) (by omega)
  · right
    apply Classical.byContradiction
    intro hx
    obtain ⟨p, hm, hk, _, hq, _⟩ := published_average_has_quotes P hp0 cdb c fromH hcache t.conversion hx
    exact absurd (hthin p hm hk) (by omega)

/-- non-vacuity / witness, evaluated by the kernel: a window of 7 samples (one height ungraded)
    with 3 non-zero quotes of asset 3 publishes no average for it although 7 ≥ 4 samples exist,
    while asset 2 with 7 non-zero quotes gets its mean -/
def wP : Params :=
  { act := ⟨0,0,0,0,0,0,0,0,0,0,100,100,200,200,300,310,400⟩, tickerMax := 63, tickerNames := ["PEG", "pUSD", "pEUR"], oneWaySet := [],
    snapshotRate := 144, perBlockHolders := 0, perBlockDevs := 0, bankBase := 0, avgPeriod := 8, avgRequired := 4,
    syncVersion := 2, devs := [], «mint» := [], burnAddr := "b", oldBurnAddr := "o", mintAddr := "m", coinbaseAddr := "c", zeroAddr := "0" }
example :
    computeAverages wP
      [(2, [5, 5, 5, 5, 5, 5, 12]), (3, [9, 9, 0, 0, 0, 0, 9])] = [(2, 6), (3, 0)] := by
  decide

end Pegnet.C13

namespace Pegnet.C13
open Pegnet
/-- the shipped schedule, regenerated from config/activations.go and fat/fat2/activations.go on every
    run, against the values this property was read with: the heights from which the one-way rules, the bank pass and the averages requirement apply. Every scenario of the harness
    runs on a compressed schedule that overwrites these constants, so nothing else would notice one of
    them moving; a moved height is a different protocol, not a rewrite. -/
theorem shipped_schedule :
    let a := Generated.activations
    Generated.activationsComplete = true ∧ a.oneWayFCT = 220346 ∧ a.convLimit = 222270 ∧ a.oneWaySmall = 274036 ∧ a.pip10 = 295190 := by
  decide
end Pegnet.C13

namespace Pegnet.C13
open Pegnet
/-- the averaging window the binary ships with (node/average.go, regenerated): 288 blocks, an average needs half of them — the scenarios run with a window of 8 -/
theorem shipped_window : Generated.averagePeriod = 288 ∧ Generated.averageRequiredExpr = "AveragePeriod / 2" := by
  decide
end Pegnet.C13

namespace Pegnet.C13
open Pegnet
/-- **"whose average is unavailable", on the rate table.** Along any chain applied in order whose
    averaging windows have no hole, the average the next block uses for asset `t` is unavailable (0)
    exactly when the height window ending at the last rated height before the block holds fewer than
    `AverageRequired` non-zero quotes of `t` (or their mean rounds to 0); otherwise it is the mean of
    the window's quotes. So which conversions the averages requirement forbids at a block is a
    function of the committed rate table alone. -/
theorem average_available_iff_window_has_quotes (P : Params) (hp : 0 < P.avgPeriod) (bs : List Block) (b : Block)
    (hw : WholeChain P (freshNode P) (bs ++ [b])) (t : Ticker) :
    let n := runBlocks P (freshNode P) bs
    let w := window P n.db (n.db.mostRecentRatesBefore b.height).2 t
    (getAverages P { n.db with avgTouched := false } n.cache
        (({ n.db with avgTouched := false } : DB).mostRecentRatesBefore b.height).2).2.get t
      = if nonZero w < P.avgRequired then 0 else (w.sum % 18446744073709551616) / w.length := by
  obtain ⟨h1, _, h3⟩ := wholeChain_append P bs b _ hw
  have := pricing_average_is_window_mean P hp _ b
    (runBlocks_good P hp bs _ ⟨cacheOK_empty P, cacheSem_empty P _, Nat.zero_le _⟩ h1) h3 t
  dsimp only
  rw [this, avgOf_spec P _ (window_length P _ _ t)]
end Pegnet.C13

#print axioms Pegnet.C13.admission_table
#print axioms Pegnet.C13.forbidden_destination_no_effect
#print axioms Pegnet.C13.pfct_one_way
#print axioms Pegnet.C13.small_assets_one_way
#print axioms Pegnet.C13.zero_rate_rejected
#print axioms Pegnet.C13.unavailable_average_dropped
#print axioms Pegnet.C13.admissible_funded_executes
#print axioms Pegnet.C13.peg_destination_invalid
#print axioms Pegnet.C13.one_way_set_matches_source
#print axioms Pegnet.C13.cache_consistent_along_every_run
#print axioms Pegnet.C13.average_published_only_with_enough_quotes
#print axioms Pegnet.C13.thin_window_conversion_dropped
#print axioms Pegnet.C13.shipped_schedule
#print axioms Pegnet.C13.shipped_window
#print axioms Pegnet.C13.average_available_iff_window_has_quotes
