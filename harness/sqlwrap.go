package main

// database/sql driver wrapper around go-sqlite3: numbers every statement the daemon issues
// (including BEGIN / COMMIT / ROLLBACK), records its kind and call site, and can fail or kill
// the process at a chosen statement index.

import (
	"time"
	"context"
	"database/sql"
	"database/sql/driver"
	"fmt"
	"os"
	"runtime"
	"strings"
	"sync"
	"syscall"

	sqlite3 "github.com/mattn/go-sqlite3"
)

type StmtLog struct {
	N    int
	Kind string // begin commit rollback exec query
	SQL  string
	Site string // first frame inside /repo
	Path string // /repo call chain below DBlockSync / SyncBlock, outermost first
}

type SQLWrap struct {
	mu      sync.Mutex
	n       int
	Log     []StmtLog
	Record  bool
	FailAt  map[int]bool // fail statement n once with an injected error
	FailRowsAt map[int]bool // query n succeeds, its first row fetch fails once (SQLITE_BUSY surfaces at the first step)
	rowsFault  bool
	KillAt  int          // SIGKILL self right before statement n (0 = off)
	KillFile string      // written (statement description) just before the kill
	KillCommit int       // SIGKILL self right before the k-th COMMIT (0 = off)
	CommitDelay time.Duration // pause right before every COMMIT is executed (widens the window between "about to commit" and "committed")
	commits  int
}

var Wrap = &SQLWrap{FailAt: map[int]bool{}, FailRowsAt: map[int]bool{}}

func (w *SQLWrap) Reset() {
	w.mu.Lock()
	w.n = 0
	w.Log = nil
	w.FailAt = map[int]bool{}
	w.FailRowsAt = map[int]bool{}
	w.rowsFault = false
	w.KillAt = 0
	w.mu.Unlock()
}

func (w *SQLWrap) Count() int {
	w.mu.Lock()
	defer w.mu.Unlock()
	return w.n
}

func repoSite() (string, string) {
	pcs := make([]uintptr, 60)
	n := runtime.Callers(3, pcs)
	frames := runtime.CallersFrames(pcs[:n])
	site := "?"
	var chain []string
	for {
		fr, more := frames.Next()
		if strings.Contains(fr.File, "/repo/") || strings.Contains(fr.Function, "pegnet/pegnetd/") {
			i := strings.Index(fr.File, "/repo/")
			file := fr.File
			if i >= 0 {
				file = fr.File[i+6:]
			}
			fn := fr.Function
			if j := strings.LastIndex(fn, "."); j >= 0 {
				fn = fn[j+1:]
			}
			if site == "?" {
				site = fmt.Sprintf("%s:%s", file, fn)
			}
			if fn != "DBlockSync" && fn != "SyncBlock" && !strings.HasPrefix(fn, "func") {
				if len(chain) == 0 || chain[len(chain)-1] != fn {
					chain = append(chain, fn)
				}
			}
		}
		if !more {
			break
		}
	}
	// outermost first
	for i, j := 0, len(chain)-1; i < j; i, j = i+1, j-1 {
		chain[i], chain[j] = chain[j], chain[i]
	}
	if len(chain) == 0 {
		chain = []string{"DBlockSync"}
	}
	return site, strings.Join(chain, ">")
}

// before is called ahead of every statement; a non-nil error is the injected fault.
func (w *SQLWrap) before(kind, q string) error {
	w.mu.Lock()
	w.n++
	n := w.n
	var site, path string
	if w.Record {
		site, path = repoSite()
		s := strings.Join(strings.Fields(q), " ")
		if len(s) > 70 {
			s = s[:70]
		}
		w.Log = append(w.Log, StmtLog{N: n, Kind: kind, SQL: s, Site: site, Path: path})
	}
	kill := w.KillAt != 0 && n == w.KillAt
	if kind == "commit" {
		w.commits++
		if w.KillCommit != 0 && w.commits == w.KillCommit {
			kill = true
		}
	}
	fail := w.FailAt[n]
	if fail {
		delete(w.FailAt, n)
	}
	if kind == "query" && w.FailRowsAt[n] {
		delete(w.FailRowsAt, n)
		w.rowsFault = true
	}
	kf := w.KillFile
	delay := w.CommitDelay
	w.mu.Unlock()
	if kind == "commit" && delay > 0 {
		time.Sleep(delay)
	}
	if kill {
		if kf != "" {
			os.WriteFile(kf, []byte(fmt.Sprintf("%d %s %s\n", n, kind, strings.Join(strings.Fields(q), " "))), 0644)
		}
		syscall.Kill(os.Getpid(), syscall.SIGKILL)
		select {}
	}
	if fail {
		return fmt.Errorf("injected database fault at statement %d (%s)", n, kind)
	}
	return nil
}

type wDriver struct{ inner *sqlite3.SQLiteDriver }

func (d *wDriver) Open(name string) (driver.Conn, error) {
	c, err := d.inner.Open(name)
	if err != nil {
		return nil, err
	}
	return &wConn{c.(*sqlite3.SQLiteConn)}, nil
}

type wConn struct{ c *sqlite3.SQLiteConn }

func (c *wConn) Prepare(q string) (driver.Stmt, error) {
	s, err := c.c.Prepare(q)
	if err != nil {
		return nil, err
	}
	return &wStmt{s: s.(*sqlite3.SQLiteStmt), q: q}, nil
}
func (c *wConn) PrepareContext(ctx context.Context, q string) (driver.Stmt, error) {
	s, err := c.c.PrepareContext(ctx, q)
	if err != nil {
		return nil, err
	}
	return &wStmt{s: s.(*sqlite3.SQLiteStmt), q: q}, nil
}
func (c *wConn) Close() error { return c.c.Close() }
func (c *wConn) Begin() (driver.Tx, error) {
	return c.BeginTx(context.Background(), driver.TxOptions{})
}
func (c *wConn) BeginTx(ctx context.Context, opts driver.TxOptions) (driver.Tx, error) {
	if err := Wrap.before("begin", "BEGIN"); err != nil {
		return nil, err
	}
	tx, err := c.c.BeginTx(ctx, opts)
	if err != nil {
		return nil, err
	}
	return &wTx{tx}, nil
}

type wTx struct{ tx driver.Tx }

func (t *wTx) Commit() error {
	if err := Wrap.before("commit", "COMMIT"); err != nil {
		// a transient COMMIT failure is SQLITE_BUSY; the real driver then rolls the transaction
		// back itself because database/sql regards it as finished (go-sqlite3 SQLiteTx.Commit)
		t.tx.Rollback()
		return err
	}
	err := t.tx.Commit()
	if err == nil {
		// an extra numbered point "right after COMMIT"
		Wrap.before("committed", "-- after COMMIT")
	}
	return err
}
func (t *wTx) Rollback() error {
	Wrap.before("rollback", "ROLLBACK")
	return t.tx.Rollback()
}

type wStmt struct {
	s *sqlite3.SQLiteStmt
	q string
}

func (s *wStmt) Close() error  { return s.s.Close() }
func (s *wStmt) NumInput() int { return s.s.NumInput() }
func (s *wStmt) Exec(args []driver.Value) (driver.Result, error) {
	if err := Wrap.before("exec", s.q); err != nil {
		return nil, err
	}
	return s.s.Exec(args)
}
func (s *wStmt) Query(args []driver.Value) (driver.Rows, error) {
	if err := Wrap.before("query", s.q); err != nil {
		return nil, err
	}
	rows, err := s.s.Query(args)
	return Wrap.wrapRows(rows, err)
}
func (s *wStmt) ExecContext(ctx context.Context, args []driver.NamedValue) (driver.Result, error) {
	if err := Wrap.before("exec", s.q); err != nil {
		return nil, err
	}
	return s.s.ExecContext(ctx, args)
}
func (s *wStmt) QueryContext(ctx context.Context, args []driver.NamedValue) (driver.Rows, error) {
	if err := Wrap.before("query", s.q); err != nil {
		return nil, err
	}
	rows, err := s.s.QueryContext(ctx, args)
	return Wrap.wrapRows(rows, err)
}

// wrapRows: when a row-fetch fault is pending for this query, the result set fails at its first
// fetch — where go-sqlite3 reports a lock timeout or an I/O error of the first sqlite3_step.
func (w *SQLWrap) wrapRows(rows driver.Rows, err error) (driver.Rows, error) {
	if err != nil {
		return rows, err
	}
	w.mu.Lock()
	f := w.rowsFault
	w.rowsFault = false
	w.mu.Unlock()
	if !f {
		return rows, nil
	}
	return &wRows{inner: rows}, nil
}

type wRows struct {
	inner  driver.Rows
	failed bool
}

func (r *wRows) Columns() []string { return r.inner.Columns() }
func (r *wRows) Close() error      { return r.inner.Close() }
func (r *wRows) Next(dest []driver.Value) error {
	if !r.failed {
		r.failed = true
		return fmt.Errorf("injected database fault while fetching rows (database is locked)")
	}
	return r.inner.Next(dest)
}

func init() {
	sql.Register("sqlite3_verif", &wDriver{inner: &sqlite3.SQLiteDriver{}})
}
