package main

// Token tree of a JSON document for the Lean codec model (Pegnet/Json.lean): the compacted text
// is scanned into a tree that keeps the raw lexemes; string values carry their decoded content
// and, when they are well-formed Factoid addresses, the 32 address bytes.

import (
	"encoding/hex"
	"encoding/json"
	"fmt"
	"strings"
	"unicode/utf8"

	"github.com/Factom-Asset-Tokens/factom"
	"github.com/Factom-Asset-Tokens/factom/jsonlen"
	"github.com/pegnet/pegnetd/fat/fat2"
)

func hexOrDashS(b []byte) string {
	if len(b) == 0 {
		return "-"
	}
	return hex.EncodeToString(b)
}

type jscan struct {
	d   []byte
	out []string
	bad bool
}

func (s *jscan) str(i int) int {
	j := i + 1
	for j < len(s.d) {
		if s.d[j] == '\\' {
			j += 2
			continue
		}
		if s.d[j] == '"' {
			return j + 1
		}
		j++
	}
	s.bad = true
	return len(s.d)
}

func (s *jscan) value(i int) int {
	if i >= len(s.d) {
		s.bad = true
		return i
	}
	switch c := s.d[i]; {
	case c == 'n':
		s.out = append(s.out, "n")
		return i + 4
	case c == 't':
		s.out = append(s.out, "t")
		return i + 4
	case c == 'f':
		s.out = append(s.out, "f")
		return i + 5
	case c == '"':
		j := s.str(i)
		lex := s.d[i:j]
		var val string
		if json.Unmarshal(lex, &val) != nil {
			s.bad = true
		}
		addr := "-"
		var a factom.FAAddress
		if json.Unmarshal(lex, &a) == nil {
			addr = hex.EncodeToString(a[:])
		}
		s.out = append(s.out, "s", hexOrDashS(lex), hexOrDashS([]byte(val)), addr)
		return j
	case c == '[':
		pos := len(s.out)
		s.out = append(s.out, "[", "0")
		n := 0
		i++
		if i < len(s.d) && s.d[i] == ']' {
			return i + 1
		}
		for {
			i = s.value(i)
			n++
			if s.bad || i >= len(s.d) {
				s.bad = true
				return i
			}
			if s.d[i] == ',' {
				i++
				continue
			}
			break
		}
		s.out[pos+1] = fmt.Sprint(n)
		return i + 1 // ']'
	case c == '{':
		pos := len(s.out)
		s.out = append(s.out, "{", "0")
		n := 0
		i++
		if i < len(s.d) && s.d[i] == '}' {
			return i + 1
		}
		for {
			if i >= len(s.d) || s.d[i] != '"' {
				s.bad = true
				return i
			}
			j := s.str(i)
			lex := s.d[i:j]
			var key string
			if json.Unmarshal(lex, &key) != nil {
				s.bad = true
			}
			s.out = append(s.out, hexOrDashS(lex), hexOrDashS([]byte(key)))
			i = j + 1 // ':'
			i = s.value(i)
			n++
			if s.bad || i >= len(s.d) {
				s.bad = true
				return i
			}
			if s.d[i] == ',' {
				i++
				continue
			}
			break
		}
		s.out[pos+1] = fmt.Sprint(n)
		return i + 1 // '}'
	default: // number
		j := i
		for j < len(s.d) && strings.IndexByte("+-0123456789.eE", s.d[j]) >= 0 {
			j++
		}
		if j == i {
			s.bad = true
			return i + 1
		}
		s.out = append(s.out, "#", hexOrDashS(s.d[i:j]))
		return j
	}
}

// TreeLine: token tree of the compacted document and its compacted length; ok=false when the
// content is not syntactically valid JSON or not valid UTF-8 (such content never reaches the
// decoders under test: encoding/json rejects it first).
func TreeLine(data []byte) (line string, clen int, ok bool) {
	if !json.Valid(data) || !utf8.Valid(data) {
		return "", 0, false
	}
	c := jsonlen.Compact(data)
	s := &jscan{d: c}
	end := s.value(0)
	if s.bad || end != len(c) {
		return "", 0, false
	}
	return strings.Join(s.out, " "), len(c), true
}

// RenderDecoded: the decoded batch in the form the model's `json` command answers.
func RenderDecoded(tb *fat2.TransactionBatch, clen int) string {
	var sb strings.Builder
	fmt.Fprintf(&sb, "ok len=%d v=%d", clen, tb.Version)
	for _, t := range tb.Transactions {
		var trs []string
		for _, tr := range t.Transfers {
			trs = append(trs, fmt.Sprintf("%s:%d", hex.EncodeToString(tr.Address[:]), tr.Amount))
		}
		fmt.Fprintf(&sb, " %s/%d/%d/%d/%s", hex.EncodeToString(t.Input.Address[:]), uint64(t.Input.Type), t.Input.Amount, uint64(t.Conversion), strings.Join(trs, ","))
	}
	return sb.String()
}
