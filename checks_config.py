# Per-property configuration of ./check: which correspondence scenarios run, which monitor
# signatures belong to the property, what is assumed. MANIFEST.json is generated from this file
# by ./gen_manifest.py.

COMMON_TRUSTED = [
    "extractor /verif/extract (go/ast; regenerates lean/Pegnet/Generated/Facts.lean and facts.json from /repo on every run)",
    "correspondence harness /verif/harness (differential run of the real Go code and the Lean model's executable definitions; spec monitors on the implementation's dumps)",
]
SQLITE = "SQLite: a committed sql.Tx is atomic and durable, a rolled-back or killed one leaves no effect, pool connections read committed state only"
ORACLES = "grading libraries, LXR hash, fat103/ed25519/secp256k1 signature checks, encoding/json and the Factom binary formats are outside the model (their answers enter as arbitrary oracle values)"

CHECKS = {
    "C01": {
        "scenarios": [{"name": "replaymp"}, {"name": "payouts"}, {"name": "general", "tier": "thorough"}],
        "accept": ["replay:", "payouts:nondeterministic"],
        "technique": "Lean: model is a function of the chain; regenerated list of every map range / sort / clock read in the sync path; order-independence lemmas for the payout set; kernel-checked witness that untied staking order mattered (repaired). Tie: N independent OS processes replay one tie-laden chain (top stakes tied, total above the cap), dumps compared; ConversionSupplySet.Payouts evaluated repeatedly on one request set; reference run in lock-step with the model",
        "assumptions": [ORACLES, "multiFetch's worker interleaving is not modelled (entries are stored by index)"],
        "design_ref": "DESIGN.md §7 C01",
    },
    "C02": {
        "scenarios": [{"name": "crash"}],
        "accept": ["crash:", "replay:"],
        "technique": "Lean: block all-or-nothing, height bump inside the transaction, a height cannot be applied twice (induction-free invariant over the whole block via the program logic), regenerated fact that no sync-path write uses the pool. Tie: real SIGKILL of a child daemon before every kind of SQL statement / COMMIT / after COMMIT, reopen, compare with the reference ledger, resume",
        "assumptions": [SQLITE],
        "design_ref": "DESIGN.md §7 C02",
    },
    "C03": {
        "scenarios": [{"name": "admission"}, {"name": "bank"}, {"name": "general", "tier": "thorough"}],
        "accept": ["batch:", "nonneg:", "history-replay:balances-differ", "transfer:"],
        "technique": "Lean: balance-table invariant (one row per address, no negative cell) proved for every primitive and lifted through the whole block transaction and every chain; rejected batch = no state change; accepted batch passed the funds check. Tie: bank-era chains with requests that are rejected when they execute (history replay = balances: a rejected batch contributes nothing); applyTransactionBatch (hook) on random 1-4 transaction batches vs the model; lock-step chains",
        "assumptions": ["per-asset column sums stay below 2^63 (no check in the code; SQLite would switch to REAL)"],
        "design_ref": "DESIGN.md §7 C03",
    },
    "C04": {
        "scenarios": [{"name": "ledger"}, {"name": "bank"}],
        "accept": ["history-replay:", "nonneg:", "conversion:amount:pip10", "transfer:"],
        "technique": "Lean: AddToBalance/SubFromBalance change the column sum by exactly their amount; a transfer changes its asset's supply by minus what went to the burn address and nothing else. Tie: era-crossing lock-step chain; monitor recomputes every balance from the recorded history + scheduled adjustments after every block",
        "assumptions": [ORACLES, "block-level sum of all event kinds is checked by the monitor, proved only per event kind (transfer, rejected batch)"],
        "design_ref": "DESIGN.md §7 C04",
    },
    "C05": {
        "scenarios": [{"name": "sigmut"}, {"name": "dups"}],
        "accept": ["sigmut:", "liveness:", "dups:"],
        "technique": "Lean: invalid entry is inert on arrival and on execution from holding, key type selected strictly above its activation, single input address, int64 bound. Tie: block with one validly signed transfer plus hundreds of mutants (bit flips, missing/duplicated/swapped signature pairs, other key, salt window) per key type and era, lock-step with the model, executions counted",
        "assumptions": [ORACLES, "signature soundness (a verdict bit implies the key holder signed) is assumed of fat103 / the crypto libraries"],
        "design_ref": "DESIGN.md §7 C05",
    },
    "C06": {
        "scenarios": [{"name": "dups"}, {"name": "bank"}],
        "accept": ["dups:", "holding:passed-over", "history-replay:balances-differ:bank-"],
        "technique": "Lean: execution marks the entry hash, the mark is permanent over every chain (relation rows only grow: invariant lifted through the whole block), marked or already-recorded entries are skipped, holding window visits strictly earlier heights; block-level 'at least once': every batch held in the window of a rated block gets a status / replay mark / dropped in that block (history variable statusLog, lifted through the whole block transaction). Tie: repetition patterns synced with and without the duplicates, lock-step with the model",
        "assumptions": [ORACLES],
        "design_ref": "DESIGN.md §7 C06",
    },
    "C07": {
        "scenarios": [{"name": "convert"}, {"name": "ledger"}],
        "accept": ["convert:", "conversion:", "holding:passed-over"],
        "technique": "Lean: Convert succeeds iff its guards hold and then returns floor(amt*src/dst) within int64, src=min/dst=max under PIP-10, value non-increasing, all reject cases; a held conversion is dealt with by the first rated block after it (block-level theorem). Tie: conversions.Convert on edge/random inputs vs the model; chains with graded/ungraded patterns, recorded to_amount vs recorded rates, never executed in the submitting block",
        "assumptions": ["big.Int arithmetic modelled by Int/Nat"],
        "design_ref": "DESIGN.md §7 C07",
    },
    "C08": {
        "scenarios": [{"name": "malformed"}, {"name": "dups"}, {"name": "general", "tier": "thorough"}],
        "accept": ["liveness:", "dups:"],
        "technique": "Lean: every model function total (termination checked), staking glue never panics, repeated entry hashes are skipped, an empty block always applies; regenerated swallow/pool-read lists. Tie: blocks with malformed / oversized / truncated / duplicated entries on all three chains on reachable ledgers, real grader libraries, lock-step; each block must apply",
        "assumptions": [ORACLES, "a panic inside the grading libraries is outside the model (seen by the monitor only)", "SQLite lock escalation between the block transaction and pool reads is not modelled (known finding)"],
        "design_ref": "DESIGN.md §7 C08",
    },
    "C09": {
        "scenarios": [{"name": "restart"}],
        "accept": ["restart:"],
        "technique": "Lean: reload path is a function of the database, cache hit is idempotent, restart keeps the database; kernel-checked witness (1000 vs 1057) that the incremental and reload averages differ after an ungraded block. Tie: one chain synced continuously and with clean restarts at chosen heights, both in lock-step with the model, final ledgers compared",
        "assumptions": [SQLITE],
        "design_ref": "DESIGN.md §7 C09",
    },
    "C10": {
        "scenarios": [{"name": "faults"}],
        "accept": ["faults:"],
        "technique": "Lean: a propagated failure commits nothing and a retry is deterministic; swallow keeps partial effects; regenerated lists of discarded / log-only / blank-assigned errors equal the known ones. Tie: every upstream request and (sampled) SQL statement of chosen blocks fails once on a copy of the pre-block database; the daemon's own retry must reach the fault-free ledger",
        "assumptions": [SQLITE, "faults are injected at the database/sql driver and at the HTTP transport"],
        "design_ref": "DESIGN.md §7 C10",
    },
    "C11": {
        "scenarios": [{"name": "ledger"}],
        "accept": ["rewards:"],
        "technique": "Lean: version ladders equal the regenerated ones, no winners = no reward, unparsable address skipped, each winner credited exactly Payout() with one coinbase row, SPR rewards only from 2.0 and only for declared top-100 ids, burn shape iff and exact credit. Tie: lock-step chain; monitor compares coinbase rows with an independent run of the real graders",
        "assumptions": [ORACLES],
        "design_ref": "DESIGN.md §7 C11",
    },
    "C12": {
        "scenarios": [{"name": "inband"}, {"name": "assetrates"}, {"name": "ledger"}],
        "accept": ["inband:", "rates:", "assetrates:"],
        "technique": "Lean: rate rows of other heights untouched by any block (relation lifted through the whole block transaction) hence immutable over every chain; no rates = no conversions; exact binary64 band rule; regenerated tolerances. Tie: band test at and around both edges vs Go floats; the real GetAssetRatesV0 / GetAssetRates on generated asset lists vs the model and the per-asset rule; lock-step chains with in-band / out-of-band SPR sets in every era",
        "assumptions": [ORACLES, "a healthy Factom node serves each height once"],
        "design_ref": "DESIGN.md §7 C12",
    },
    "C13": {
        "scenarios": [{"name": "admission"}, {"name": "ledger"}],
        "accept": ["admission:"],
        "technique": "Lean: outcome of a single-conversion batch equals the rule table for all pairs, heights, rates, averages and balances; corollaries per rule and the converse (admissible and funded = executed); regenerated one-way set, guard and reject codes. Tie: applyTransactionBatch (hook) over pairs x heights around every activation x rate/average patterns vs the model and the table",
        "assumptions": ["PEG-destination rule from 2.0 lives in the holding path (ValidatePegTx) and is exercised by the lock-step chains"],
        "design_ref": "DESIGN.md §7 C13",
    },
    "C14": {
        "scenarios": [{"name": "payouts"}, {"name": "ledger"}, {"name": "bank"}],
        "accept": ["staking:", "payouts:"],
        "technique": "Lean: total paid = min(total stake, cap), exact when over, full when under, proportional shares, distinct payout keys, stake uses min(current, past) and ignores PEG. Tie: ConversionSupplySet vs the model on random sets with ties; lock-step chain over two snapshot heights with the staking specification recomputed from the snapshot tables",
        "assumptions": ["every per-asset valuation fits in int64 (otherwise the block fails: C08)"],
        "design_ref": "DESIGN.md §7 C14",
    },
    "C15": {
        "scenarios": [{"name": "ledger"}, {"name": "aligned"}],
        "accept": ["issuance:", "history-replay:old-burn", "history-replay:burn", "history-replay:mint"],
        "technique": "Lean: regenerated developer table sums to 100 % / 2000 PEG (x144), mint table shape, activation order; payouts, mint and zeroings are identity off their heights; kernel-checked witness that the old-burn zeroing stops at the first non-zero asset. Tie: lock-step chain crossing every activation with funds on the special addresses; chains whose developer-reward / 2.0.2 activation is a multiple of 144 (aligned with the payout cadence); schedule monitor",
        "assumptions": [ORACLES],
        "design_ref": "DESIGN.md §7 C15",
    },
    "C16": {
        "scenarios": [{"name": "payouts"}, {"name": "ledger"}, {"name": "bank"}],
        "accept": ["payouts:", "refund:", "bank:", "history-replay:balances-differ:bank-"],
        "technique": "Lean: bank limit, exact when over, full if fits, proportional shares, same requesters, refund value inequality. Tie: ConversionSupplySet / Refund vs the model; bank-era lock-step chains with bank rows checked",
        "assumptions": ["request keys are distinct (Go map keys)", "bank is a uint64"],
        "design_ref": "DESIGN.md §7 C16",
    },
    "C17": {
        "scenarios": [{"name": "ledger"}, {"name": "bank"}],
        "accept": ["history-replay:", "paging:", "holding:"],
        "technique": "Lean: pages at offsets 0, 50, ... partition any ordered result; arrival records pending; rejected batch has no effect; status update hits exactly the rows of the hash; kernel-checked witness that an unconvertible amount stays pending; otherwise a held batch is resolved by the first rated block (partial theorem). Tie: lock-step chain; monitor replays the whole history (+ scheduled adjustments) to the balances after every block",
        "assumptions": [ORACLES, "API paging is modelled as LIMIT/OFFSET over a fixed ordered list"],
        "design_ref": "DESIGN.md §7 C17",
    },
    "C18": {
        "scenarios": [{"name": "api", "race": True}],
        "accept": ["api:", "race:"],
        "technique": "Lean (call granularity): API calls never change the committed database, see committed state only, but move the shared averaging cache (kernel-checked witness); regenerated lists of API sites touching shared node state and of goroutine starts. Tie/support: real srv handlers over HTTP from 6 goroutines during real sync, ledger compared with the load-free run; binary built with -race, reports parsed",
        "assumptions": [SQLITE, "goroutine interleavings inside one call cannot be exhibited by the sequential model: the race detector run supports, it does not prove"],
        "design_ref": "DESIGN.md §7 C18",
    },
    "C19": {
        "scenarios": [{"name": "hardforks"}],
        "accept": ["hardforks:"],
        "technique": "Lean 4 iff-characterisation of CheckHardForks over all fork tables / row sets, adequate builds always accepted, back-fill rows; regenerated shipped table. Tie: real CheckHardForks on databases produced by real session histories (start-up check each session)",
        "assumptions": ["pn_sync_version has PRIMARY KEY(height) (SQLite enforces it)"],
        "design_ref": "DESIGN.md §7 C19",
    },
    "C20": {
        "scenarios": [{"name": "amount"}, {"name": "codec"}],
        "accept": ["amount:", "codec:"],
        "technique": "Lean: amount parser core exact-or-reject (iff), structural validation lemmas. Tie: cmd.FactoidToFactoshi vs the model and exact decimal arithmetic; fat2 decoder on canonical encodings and byte-level mutations vs an independent canonical-form checker, round trip, and the model's validAt",
        "assumptions": ["byte-level JSON acceptance (duplicate / unknown keys) is outside the Lean model: decided by the differential codec scenario only"],
        "design_ref": "DESIGN.md §7 C20",
    },
}

for _c in CHECKS.values():
    _c.setdefault("trusted", COMMON_TRUSTED)
