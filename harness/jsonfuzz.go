package main

// Structure-level fuzzing of the fat2 decoders against the Lean model of them: a canonical batch
// document is turned into a tree, a few random edits are applied (drop / duplicate / re-case /
// escape a key, add an unknown key, replace a value by null, a number, a string, an array or an
// object, reorder keys, nest the document one level deeper), the tree is printed as JSON and both
// decoders are asked. One PRNG; every disagreement is a replay.

import (
	"fmt"
	"math/rand"
	"strings"

	"github.com/pegnet/pegnetd/fat/fat2"
)

type jn struct {
	raw    string // scalar lexeme (number, string with quotes, true/false/null)
	arr    []*jn
	keys   []string // raw key lexemes with quotes
	vals   []*jn
	isArr  bool
	isObj  bool
}

func (n *jn) text(sb *strings.Builder) {
	switch {
	case n.isArr:
		sb.WriteByte('[')
		for i, x := range n.arr {
			if i > 0 {
				sb.WriteByte(',')
			}
			x.text(sb)
		}
		sb.WriteByte(']')
	case n.isObj:
		sb.WriteByte('{')
		for i := range n.keys {
			if i > 0 {
				sb.WriteByte(',')
			}
			sb.WriteString(n.keys[i])
			sb.WriteByte(':')
			n.vals[i].text(sb)
		}
		sb.WriteByte('}')
	default:
		sb.WriteString(n.raw)
	}
}

func scalar(s string) *jn { return &jn{raw: s} }
func obj(kv ...interface{}) *jn {
	n := &jn{isObj: true}
	for i := 0; i+1 < len(kv); i += 2 {
		n.keys = append(n.keys, `"`+kv[i].(string)+`"`)
		n.vals = append(n.vals, kv[i+1].(*jn))
	}
	return n
}

func (n *jn) objects(out *[]*jn) {
	if n.isObj {
		*out = append(*out, n)
		for _, v := range n.vals {
			v.objects(out)
		}
	}
	if n.isArr {
		for _, v := range n.arr {
			v.objects(out)
		}
	}
}

func randomScalarOrSmall(r *rand.Rand) *jn {
	switch r.Intn(9) {
	case 0:
		return scalar("null")
	case 1:
		return scalar("true")
	case 2:
		return scalar(fmt.Sprint(r.Intn(1000)))
	case 3:
		return scalar(`"pUSD"`)
	case 4:
		return &jn{isArr: true}
	case 5:
		return &jn{isObj: true}
	case 6:
		return scalar(`"\"pUSD\""`)
	case 7:
		return scalar("1.0")
	default:
		return scalar(`"x"`)
	}
}

func recase(k string, r *rand.Rand) string {
	b := []byte(k)
	for i := range b {
		if b[i] >= 'a' && b[i] <= 'z' && r.Intn(3) == 0 {
			b[i] -= 32
		}
	}
	return string(b)
}

func mutateTree(root *jn, r *rand.Rand) string {
	var objs []*jn
	root.objects(&objs)
	if len(objs) == 0 {
		return "none"
	}
	o := objs[r.Intn(len(objs))]
	switch r.Intn(10) {
	case 0: // drop a key
		if len(o.keys) > 0 {
			i := r.Intn(len(o.keys))
			o.keys = append(o.keys[:i], o.keys[i+1:]...)
			o.vals = append(o.vals[:i], o.vals[i+1:]...)
		}
		return "drop-key"
	case 1: // duplicate a key (same or other value)
		if len(o.keys) > 0 {
			i := r.Intn(len(o.keys))
			v := o.vals[i]
			if r.Intn(2) == 0 {
				v = randomScalarOrSmall(r)
			}
			o.keys = append(o.keys, o.keys[i])
			o.vals = append(o.vals, v)
		}
		return "dup-key"
	case 2: // re-case a key
		if len(o.keys) > 0 {
			i := r.Intn(len(o.keys))
			o.keys[i] = recase(o.keys[i], r)
		}
		return "recase-key"
	case 3: // escape the first letter of a key (\u00XX)
		if len(o.keys) > 0 {
			i := r.Intn(len(o.keys))
			k := o.keys[i]
			if len(k) > 2 {
				o.keys[i] = fmt.Sprintf(`"\u%04x%s`, k[1], k[2:])
			}
		}
		return "escape-key"
	case 4: // unknown key
		n := 1 + r.Intn(26)
		o.keys = append(o.keys, `"`+strings.Repeat("a", n)+`"`)
		o.vals = append(o.vals, randomScalarOrSmall(r))
		return "unknown-key"
	case 5: // replace a value
		if len(o.vals) > 0 {
			o.vals[r.Intn(len(o.vals))] = randomScalarOrSmall(r)
		}
		return "replace-value"
	case 6: // reorder
		r.Shuffle(len(o.keys), func(i, j int) {
			o.keys[i], o.keys[j] = o.keys[j], o.keys[i]
			o.vals[i], o.vals[j] = o.vals[j], o.vals[i]
		})
		return "reorder"
	case 7: // drop a key and add an unknown key with the same total length as `"key":value` it replaces when value is 1 byte
		if len(o.keys) > 0 {
			i := r.Intn(len(o.keys))
			var sb strings.Builder
			o.vals[i].text(&sb)
			want := len(o.keys[i]) + sb.Len() // key lexeme + value
			if want > 3 {
				o.keys[i] = `"` + strings.Repeat("z", want-3) + `"`
				o.vals[i] = scalar("1")
			}
		}
		return "swap-key-for-padding"
	case 8: // Kelvin sign / long s in a key
		if len(o.keys) > 0 {
			i := r.Intn(len(o.keys))
			o.keys[i] = strings.Replace(strings.Replace(o.keys[i], "s", "ſ", 1), "k", "K", 1)
		}
		return "fold-rune-key"
	default: // metadata on this object
		o.keys = append(o.keys, `"metadata"`)
		o.vals = append(o.vals, randomScalarOrSmall(r))
		return "add-metadata"
	}
}

// canonicalTree builds the tree of a canonical batch with the given transactions.
func canonicalTree(txs []fat2.Transaction) *jn {
	arr := &jn{isArr: true}
	for _, t := range txs {
		in := obj("address", scalar(`"`+t.Input.Address.String()+`"`), "amount", scalar(fmt.Sprint(t.Input.Amount)), "type", scalar(`"`+t.Input.Type.String()+`"`))
		if t.Conversion != fat2.PTickerInvalid && len(t.Transfers) == 0 {
			arr.arr = append(arr.arr, obj("input", in, "conversion", scalar(`"`+t.Conversion.String()+`"`)))
		} else {
			trs := &jn{isArr: true}
			for _, tr := range t.Transfers {
				trs.arr = append(trs.arr, obj("address", scalar(`"`+tr.Address.String()+`"`), "amount", scalar(fmt.Sprint(tr.Amount))))
			}
			arr.arr = append(arr.arr, obj("input", in, "transfers", trs))
		}
	}
	return obj("version", scalar("1"), "transactions", arr)
}
