module verif/harness

go 1.13

require (
	github.com/Factom-Asset-Tokens/factom v0.0.0-20191114224337-71de98ff5b3e
	github.com/mattn/go-sqlite3 v1.11.0
	github.com/pegnet/LXRHash v0.0.0-20191028162532-138fe8d191a2
	github.com/pegnet/pegnet v0.5.1-0.20210225213341-a476b4b2cc0f
	github.com/pegnet/pegnetd v0.0.0
	github.com/sirupsen/logrus v1.4.2
	github.com/spf13/viper v1.4.0
)

replace github.com/pegnet/pegnetd => /repo

replace github.com/Factom-Asset-Tokens/factom => github.com/Emyrk/factom v0.0.0-20200113153851-17d98c31e1bd

replace crawshaw.io/sqlite => github.com/AdamSLevy/sqlite v0.1.3-0.20191014215059-b98bb18889de

replace github.com/spf13/pflag v1.0.3 => github.com/AdamSLevy/pflag v1.0.4
