import Pegnet.VersionLock
namespace Pegnet

theorem foldl_min_lt_iff (rs : VRows) (a v : Int) :
    rs.foldl (fun m x => min m x.2) a < v ↔ a < v ∨ ∃ r ∈ rs, r.2 < v := by
  induction rs generalizing a with
  | nil => simp
  | cons x xs ih =>
    simp only [List.foldl_cons, ih, List.mem_cons]
    constructor
    · rintro (h | ⟨r, hr, hv⟩)
      · by_cases ha : a < v
        · exact Or.inl ha
        · exact Or.inr ⟨x, Or.inl rfl, by omega⟩
      · exact Or.inr ⟨r, Or.inr hr, hv⟩
    · rintro (h | ⟨r, hr | hr, hv⟩)
      · exact Or.inl (by omega)
      · subst hr; exact Or.inl (by omega)
      · exact Or.inr ⟨r, hr, hv⟩

theorem foldl_max_gt_iff (rs : VRows) (a v : Int) :
    v < rs.foldl (fun m x => max m x.2) a ↔ v < a ∨ ∃ r ∈ rs, v < r.2 := by
  induction rs generalizing a with
  | nil => simp
  | cons x xs ih =>
    simp only [List.foldl_cons, ih, List.mem_cons]
    constructor
    · rintro (h | ⟨r, hr, hv⟩)
      · by_cases ha : v < a
        · exact Or.inl ha
        · exact Or.inr ⟨x, Or.inl rfl, by omega⟩
      · exact Or.inr ⟨r, Or.inr hr, hv⟩
    · rintro (h | ⟨r, hr | hr, hv⟩)
      · exact Or.inl (by omega)
      · subst hr; exact Or.inl (by omega)
      · exact Or.inr ⟨r, hr, hv⟩

/-- `MIN(version) WHERE height >= h` is below `v` iff some such row is, or there is none and −1 is. -/
theorem minVersionFrom_lt_iff (rows : VRows) (h : Nat) (v : Int) :
    minVersionFrom rows h < v ↔
      (∃ r ∈ rows, r.1 ≥ h ∧ r.2 < v) ∨ ((∀ r ∈ rows, r.1 < h) ∧ -1 < v) := by
  unfold minVersionFrom
  cases hf : rows.filter (fun r => r.1 ≥ h) with
  | nil =>
    simp only
    have hall : ∀ r ∈ rows, r.1 < h := by
      intro r hr
      by_cases hge : r.1 ≥ h
      · have : r ∈ rows.filter (fun r => r.1 ≥ h) := List.mem_filter.2 ⟨hr, by simpa using hge⟩
        rw [hf] at this; cases this
      · omega
    constructor
    · intro hv; exact Or.inr ⟨hall, hv⟩
    · rintro (⟨r, hr, hge, _⟩ | ⟨_, hv⟩)
      · have := hall r hr; omega
      · exact hv
  | cons x xs =>
    simp only
    rw [foldl_min_lt_iff]
    have hmem : ∀ r, r ∈ x :: xs ↔ (r ∈ rows ∧ r.1 ≥ h) := by
      intro r; rw [← hf, List.mem_filter]; simp
    constructor
    · rintro (hx | ⟨r, hr, hv⟩)
      · have := (hmem x).1 List.mem_cons_self
        exact Or.inl ⟨x, this.1, this.2, hx⟩
      · have := (hmem r).1 (List.mem_cons_of_mem _ hr)
        exact Or.inl ⟨r, this.1, this.2, hv⟩
    · rintro (⟨r, hr, hge, hv⟩ | ⟨hall, _⟩)
      · have := (hmem r).2 ⟨hr, hge⟩
        rcases List.mem_cons.1 this with e | e
        · subst e; exact Or.inl hv
        · exact Or.inr ⟨r, e, hv⟩
      · have := (hmem x).1 List.mem_cons_self
        have := hall x this.1
        omega

theorem maxVersionFrom_zero_gt_iff (rows : VRows) (cur : Int) :
    cur < maxVersionFrom rows 0 ↔ (∃ r ∈ rows, cur < r.2) ∨ (rows = [] ∧ cur < -1) := by
  unfold maxVersionFrom
  have hfil : rows.filter (fun r => r.1 ≥ 0) = rows := by
    apply List.filter_eq_self.2; intro r _; simp
  rw [hfil]
  cases rows with
  | nil => simp
  | cons x xs =>
    simp only [foldl_max_gt_iff, List.mem_cons]
    constructor
    · rintro (h | ⟨r, hr, hv⟩)
      · exact Or.inl ⟨x, Or.inl rfl, h⟩
      · exact Or.inl ⟨r, Or.inr hr, hv⟩
    · rintro (⟨r, hr | hr, hv⟩ | ⟨h, _⟩)
      · subst hr; exact Or.inl hv
      · exact Or.inr ⟨r, hr, hv⟩
      · cases h

end Pegnet
